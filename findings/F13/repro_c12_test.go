package tests_test

import (
	"testing"
	"time"

	"cosmossdk.io/math"

	test_helpers "github.com/terra-money/alliance/app"
	"github.com/terra-money/alliance/x/alliance/types"

	sdk "github.com/cosmos/cosmos-sdk/types"
	distrtypes "github.com/cosmos/cosmos-sdk/x/distribution/types"
	minttypes "github.com/cosmos/cosmos-sdk/x/mint/types"
	teststaking "github.com/cosmos/cosmos-sdk/x/staking/testutil"
	stakingtypes "github.com/cosmos/cosmos-sdk/x/staking/types"
	"github.com/stretchr/testify/assert"
	"github.com/stretchr/testify/require"
)

const reproRewardDenom = "stake"

type reproC12Env struct {
	t        *testing.T
	app      *test_helpers.App
	ctx      sdk.Context
	valAddr1 sdk.ValAddress
	valAddr2 sdk.ValAddress
	users    []sdk.AccAddress
}

// reproC12Setup whitelists one alliance asset (weight 1, rewards started) and registers two
// zero-commission validators V1 and V2. It returns 5 funded user accounts.
func reproC12Setup(t *testing.T) *reproC12Env {
	t.Helper()
	app, ctx := createTestContext(t)
	startTime := time.Now()
	ctx = ctx.WithBlockTime(startTime).WithBlockHeight(1)
	app.AllianceKeeper.InitGenesis(ctx, &types.GenesisState{
		Params: types.DefaultParams(),
		Assets: []types.AllianceAsset{
			types.NewAllianceAsset(AllianceDenom, math.LegacyNewDec(1), math.LegacyNewDec(0), math.LegacyNewDec(5), math.LegacyNewDec(0), ctx.BlockTime()),
		},
	})

	distParams, err := app.DistrKeeper.Params.Get(ctx)
	require.NoError(t, err)
	distParams.CommunityTax = math.LegacyZeroDec()
	require.NoError(t, app.DistrKeeper.Params.Set(ctx, distParams))

	addrs := test_helpers.AddTestAddrsIncremental(app, ctx, 7, sdk.NewCoins(
		sdk.NewCoin(AllianceDenom, math.NewInt(20_000_000)),
	))
	pks := test_helpers.CreateTestPubKeys(2)

	zeroCommission := stakingtypes.Commission{
		CommissionRates: stakingtypes.CommissionRates{
			Rate:          math.LegacyNewDec(0),
			MaxRate:       math.LegacyNewDec(0),
			MaxChangeRate: math.LegacyNewDec(0),
		},
		UpdateTime: time.Now(),
	}
	valAddr1 := sdk.ValAddress(addrs[0])
	_val1 := teststaking.NewValidator(t, valAddr1, pks[0])
	_val1.Commission = zeroCommission
	test_helpers.RegisterNewValidator(t, app, ctx, _val1)

	valAddr2 := sdk.ValAddress(addrs[1])
	_val2 := teststaking.NewValidator(t, valAddr2, pks[1])
	_val2.Commission = zeroCommission
	test_helpers.RegisterNewValidator(t, app, ctx, _val2)

	return &reproC12Env{t: t, app: app, ctx: ctx, valAddr1: valAddr1, valAddr2: valAddr2, users: addrs[2:]}
}

func (e *reproC12Env) val(addr sdk.ValAddress) types.AllianceValidator {
	v, err := e.app.AllianceKeeper.GetAllianceValidator(e.ctx, addr)
	require.NoError(e.t, err)
	return v
}

func (e *reproC12Env) rebalance() {
	assets := e.app.AllianceKeeper.GetAllAssets(e.ctx)
	require.NoError(e.t, e.app.AllianceKeeper.RebalanceBondTokenWeights(e.ctx, assets))
}

// allocate gives `amount` of staking rewards to the staking validator through x/distribution and makes the
// alliance module pull them into the validator's reward index, WITHOUT settling any alliance delegation.
func (e *reproC12Env) allocate(valAddr sdk.ValAddress, amount int64) sdk.Coins {
	coins := sdk.NewCoins(sdk.NewCoin(reproRewardDenom, math.NewInt(amount)))
	require.NoError(e.t, e.app.BankKeeper.MintCoins(e.ctx, minttypes.ModuleName, coins))
	require.NoError(e.t, e.app.BankKeeper.SendCoinsFromModuleToModule(e.ctx, minttypes.ModuleName, distrtypes.ModuleName, coins))
	stakingVal, err := e.app.StakingKeeper.GetValidator(e.ctx, valAddr)
	require.NoError(e.t, err)
	require.NoError(e.t, e.app.DistrKeeper.AllocateTokensToValidator(e.ctx, stakingVal, sdk.NewDecCoinsFromCoins(coins...)))
	e.ctx = e.ctx.WithBlockHeight(e.ctx.BlockHeight() + 1)
	pulled, err := e.app.AllianceKeeper.ClaimValidatorRewards(e.ctx, e.val(valAddr))
	require.NoError(e.t, err)
	return pulled
}

func (e *reproC12Env) pool() math.Int {
	addr := e.app.AccountKeeper.GetModuleAddress(types.RewardsPoolName)
	return e.app.BankKeeper.GetBalance(e.ctx, addr, reproRewardDenom).Amount
}

func (e *reproC12Env) tokens(del sdk.AccAddress, valAddr sdk.ValAddress) math.Int {
	d, found := e.app.AllianceKeeper.GetDelegation(e.ctx, del, valAddr, AllianceDenom)
	require.True(e.t, found)
	asset, _ := e.app.AllianceKeeper.GetAssetByDenom(e.ctx, AllianceDenom)
	return types.GetDelegationTokens(d, e.val(valAddr), asset).Amount
}

// entitlement is what CalculateDelegationRewards reports for the position right now (read only).
func (e *reproC12Env) entitlement(del sdk.AccAddress, valAddr sdk.ValAddress) math.Int {
	d, found := e.app.AllianceKeeper.GetDelegation(e.ctx, del, valAddr, AllianceDenom)
	require.True(e.t, found)
	asset, found := e.app.AllianceKeeper.GetAssetByDenom(e.ctx, AllianceDenom)
	require.True(e.t, found)
	coins, _, err := e.app.AllianceKeeper.CalculateDelegationRewards(e.ctx, d, e.val(valAddr), asset)
	require.NoError(e.t, err)
	return coins.AmountOf(reproRewardDenom)
}

func (e *reproC12Env) slashV1Half() {
	err := e.app.AllianceKeeper.StakingHooks().BeforeValidatorSlashed(e.ctx, e.valAddr1, math.LegacyMustNewDecFromStr("0.5"))
	require.NoError(e.t, err)
}

func within1(a, b math.Int) bool {
	return a.Sub(b).Abs().LTE(math.OneInt())
}

// Main scenario: rewards R accrued on V2 for B and C, V1 (same asset) is slashed 50%, then B and C claim.
func TestReproRewardInflationAfterSlashOfOtherValidator(t *testing.T) {
	e := reproC12Setup(t)
	k := e.app.AllianceKeeper
	userA, userB, userC := e.users[0], e.users[1], e.users[2]

	_, err := k.Delegate(e.ctx, userA, e.val(e.valAddr1), sdk.NewCoin(AllianceDenom, math.NewInt(1_000_000)))
	require.NoError(t, err)
	_, err = k.Delegate(e.ctx, userB, e.val(e.valAddr2), sdk.NewCoin(AllianceDenom, math.NewInt(1_000_000)))
	require.NoError(t, err)
	_, err = k.Delegate(e.ctx, userC, e.val(e.valAddr2), sdk.NewCoin(AllianceDenom, math.NewInt(1_000_000)))
	require.NoError(t, err)
	e.rebalance()

	const R = int64(1_000_000)
	pulled := e.allocate(e.valAddr2, R)
	t.Logf("staking rewards allocated to V2: R=%d, pulled into V2 index by ClaimValidatorRewards: %s", R, pulled)
	t.Logf("V2 index after accrual: %v", e.val(e.valAddr2).GlobalRewardHistory)

	P := e.pool()
	tokB0, tokC0 := e.tokens(userB, e.valAddr2), e.tokens(userC, e.valAddr2)
	entB0, entC0 := e.entitlement(userB, e.valAddr2), e.entitlement(userC, e.valAddr2)
	t.Logf("BEFORE slash: pool P=%s  tokens B=%s C=%s  entitlement B=%s C=%s sum=%s", P, tokB0, tokC0, entB0, entC0, entB0.Add(entC0))
	require.True(t, entB0.Add(entC0).LTE(P), "sanity: before the slash the entitlements are covered by the pool")

	// V1 (not V2) is slashed through the module's staking hook. Nothing new is allocated afterwards.
	e.slashV1Half()
	e.rebalance()

	asset, _ := k.GetAssetByDenom(e.ctx, AllianceDenom)
	t.Logf("asset after slash: TotalTokens=%s TotalValidatorShares=%s", asset.TotalTokens, asset.TotalValidatorShares)
	t.Logf("V2 index after slash (unchanged): %v", e.val(e.valAddr2).GlobalRewardHistory)
	require.Equal(t, P, e.pool(), "pool balance did not change during the slash")

	tokB1, tokC1 := e.tokens(userB, e.valAddr2), e.tokens(userC, e.valAddr2)
	entB1, entC1 := e.entitlement(userB, e.valAddr2), e.entitlement(userC, e.valAddr2)
	t.Logf("AFTER  slash: pool P=%s  tokens B=%s C=%s  entitlement B=%s C=%s sum=%s", e.pool(), tokB1, tokC1, entB1, entC1, entB1.Add(entC1))

	// (a) already accrued entitlements must not change because another validator was slashed
	assert.Truef(t, within1(entB0, entB1), "(a) B entitlement changed by slash of V1: before=%s after=%s", entB0, entB1)
	assert.Truef(t, within1(entC0, entC1), "(a) C entitlement changed by slash of V1: before=%s after=%s", entC0, entC1)
	assert.Truef(t, entB1.Add(entC1).LTE(P), "(a') sum of entitlements %s exceeds the pool %s", entB1.Add(entC1), P)

	// (b) every claim succeeds and the total paid does not exceed what the pool received
	paid := math.ZeroInt()
	for _, u := range []struct {
		name string
		addr sdk.AccAddress
	}{{"B", userB}, {"C", userC}} {
		before := e.app.BankKeeper.GetBalance(e.ctx, u.addr, reproRewardDenom).Amount
		coins, err := k.ClaimDelegationRewards(e.ctx, u.addr, e.val(e.valAddr2), AllianceDenom)
		after := e.app.BankKeeper.GetBalance(e.ctx, u.addr, reproRewardDenom).Amount
		t.Logf("claim %s: returned=%s err=%v received=%s pool left=%s", u.name, coins, err, after.Sub(before), e.pool())
		assert.NoErrorf(t, err, "(b) claim of %s failed", u.name)
		paid = paid.Add(after.Sub(before))
	}
	t.Logf("total paid=%s pool received P=%s", paid, P)
	assert.Truef(t, paid.LTE(P), "(b) total paid %s > P %s", paid, P)
}

// Same as above but the shared pool also holds rewards that belong to A on V1: the excess of B and C is paid
// out of the funds of another validator's delegator.
func TestReproRewardInflationPaidFromOtherValidatorsFunds(t *testing.T) {
	e := reproC12Setup(t)
	k := e.app.AllianceKeeper
	userA, userB, userC := e.users[0], e.users[1], e.users[2]

	_, err := k.Delegate(e.ctx, userA, e.val(e.valAddr1), sdk.NewCoin(AllianceDenom, math.NewInt(1_000_000)))
	require.NoError(t, err)
	_, err = k.Delegate(e.ctx, userB, e.val(e.valAddr2), sdk.NewCoin(AllianceDenom, math.NewInt(1_000_000)))
	require.NoError(t, err)
	_, err = k.Delegate(e.ctx, userC, e.val(e.valAddr2), sdk.NewCoin(AllianceDenom, math.NewInt(1_000_000)))
	require.NoError(t, err)
	e.rebalance()

	const R1, R2 = int64(1_000_000), int64(1_000_000)
	e.allocate(e.valAddr1, R1)
	e.allocate(e.valAddr2, R2)
	P := e.pool()
	entA0 := e.entitlement(userA, e.valAddr1)
	entB0, entC0 := e.entitlement(userB, e.valAddr2), e.entitlement(userC, e.valAddr2)
	t.Logf("BEFORE slash: pool=%s (V1 received %d, V2 received %d) entitlement A=%s B=%s C=%s", P, R1, R2, entA0, entB0, entC0)

	e.slashV1Half()
	e.rebalance()

	entA1 := e.entitlement(userA, e.valAddr1)
	entB1, entC1 := e.entitlement(userB, e.valAddr2), e.entitlement(userC, e.valAddr2)
	t.Logf("AFTER  slash: pool=%s entitlement A=%s B=%s C=%s", e.pool(), entA1, entB1, entC1)

	paidV2 := math.ZeroInt()
	for _, u := range []sdk.AccAddress{userB, userC} {
		coins, err := k.ClaimDelegationRewards(e.ctx, u, e.val(e.valAddr2), AllianceDenom)
		assert.NoError(t, err)
		paidV2 = paidV2.Add(coins.AmountOf(reproRewardDenom))
	}
	t.Logf("V2 delegators were paid %s, V2 contributed %d to the pool; pool left=%s, A's pre-slash entitlement was %s", paidV2, R2, e.pool(), entA0)
	assert.Truef(t, paidV2.LTE(math.NewInt(R2)), "V2 delegators paid %s > received for V2 %d", paidV2, R2)
	assert.Truef(t, within1(entA0, entA1), "A (slashed validator) accrued entitlement changed retroactively: before=%s after=%s", entA0, entA1)
}

// Variant 2: the value change on V2 comes from slashRedelegations.
// X redelegates V1 -> V2 (pending). Y sits on V2 with accrued, unsettled rewards. V1 is slashed:
// X's destination position on V2 loses shares, V2.TotalDelegatorShares drops, Y's token value rises.
func TestReproRewardInflationAfterRedelegationSlash(t *testing.T) {
	e := reproC12Setup(t)
	k := e.app.AllianceKeeper
	userX, userY := e.users[0], e.users[1]

	_, err := k.Delegate(e.ctx, userX, e.val(e.valAddr1), sdk.NewCoin(AllianceDenom, math.NewInt(1_000_000)))
	require.NoError(t, err)
	_, err = k.Delegate(e.ctx, userY, e.val(e.valAddr2), sdk.NewCoin(AllianceDenom, math.NewInt(1_000_000)))
	require.NoError(t, err)
	e.rebalance()

	// X moves everything from V1 to V2; the redelegation stays pending for the unbonding period.
	_, err = k.Redelegate(e.ctx, userX, e.val(e.valAddr1), e.val(e.valAddr2), sdk.NewCoin(AllianceDenom, math.NewInt(1_000_000)))
	require.NoError(t, err)
	e.rebalance()

	const R = int64(1_000_000)
	pulled := e.allocate(e.valAddr2, R)
	t.Logf("staking rewards allocated to V2: R=%d pulled=%s", R, pulled)

	P := e.pool()
	v2 := e.val(e.valAddr2)
	t.Logf("V1 validator shares before slash: %s; V2 validator shares: %s, V2 delegator shares: %s", e.val(e.valAddr1).ValidatorShares, v2.ValidatorShares, v2.TotalDelegatorShares)
	tokX0, tokY0 := e.tokens(userX, e.valAddr2), e.tokens(userY, e.valAddr2)
	entX0, entY0 := e.entitlement(userX, e.valAddr2), e.entitlement(userY, e.valAddr2)
	t.Logf("BEFORE slash: pool P=%s tokens X=%s Y=%s entitlement X=%s Y=%s sum=%s", P, tokX0, tokY0, entX0, entY0, entX0.Add(entY0))

	balX0 := e.app.BankKeeper.GetBalance(e.ctx, userX, reproRewardDenom).Amount
	e.slashV1Half()
	e.rebalance()
	paidX := e.app.BankKeeper.GetBalance(e.ctx, userX, reproRewardDenom).Amount.Sub(balX0)

	v2 = e.val(e.valAddr2)
	t.Logf("after slash: V2 validator shares: %s, V2 delegator shares: %s", v2.ValidatorShares, v2.TotalDelegatorShares)
	tokX1, tokY1 := e.tokens(userX, e.valAddr2), e.tokens(userY, e.valAddr2)
	entX1, entY1 := e.entitlement(userX, e.valAddr2), e.entitlement(userY, e.valAddr2)
	t.Logf("AFTER  slash: pool=%s (X was settled by slashRedelegations and paid %s) tokens X=%s Y=%s entitlement X=%s Y=%s", e.pool(), paidX, tokX1, tokY1, entX1, entY1)

	assert.Truef(t, within1(entY0, entY1), "(a) Y entitlement changed by redelegation slash: before=%s after=%s", entY0, entY1)

	balY0 := e.app.BankKeeper.GetBalance(e.ctx, userY, reproRewardDenom).Amount
	coins, err := k.ClaimDelegationRewards(e.ctx, userY, e.val(e.valAddr2), AllianceDenom)
	paidY := e.app.BankKeeper.GetBalance(e.ctx, userY, reproRewardDenom).Amount.Sub(balY0)
	t.Logf("claim Y: returned=%s err=%v received=%s pool left=%s", coins, err, paidY, e.pool())
	assert.NoError(t, err, "(b) claim of Y failed")
	coins, err = k.ClaimDelegationRewards(e.ctx, userX, e.val(e.valAddr2), AllianceDenom)
	t.Logf("claim X (second time): returned=%s err=%v", coins, err)
	assert.NoError(t, err)
	total := paidX.Add(paidY)
	t.Logf("total paid=%s (X %s + Y %s) vs pool received P=%s", total, paidX, paidY, P)
	assert.Truef(t, total.LTE(P), "(b) total paid %s > P %s", total, P)
}
