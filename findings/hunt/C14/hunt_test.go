package tests_test

import (
	"testing"
	"time"

	"cosmossdk.io/math"

	test_helpers "github.com/terra-money/alliance/app"
	"github.com/terra-money/alliance/x/alliance"
	"github.com/terra-money/alliance/x/alliance/keeper"
	"github.com/terra-money/alliance/x/alliance/types"

	abcitypes "github.com/cometbft/cometbft/abci/types"
	sdk "github.com/cosmos/cosmos-sdk/types"
	authtypes "github.com/cosmos/cosmos-sdk/x/auth/types"
	minttypes "github.com/cosmos/cosmos-sdk/x/mint/types"
	"github.com/stretchr/testify/require"
)

// C14: "before its reward start time an asset earns no rewards".
//
// Asset A is active, asset B is in warm-up. All staking rewards of the scenario are
// allocated by x/distribution while B is still in warm-up (B carries no voting power, so
// they were produced by A's stake only). Nothing is allocated after B's reward start time.
// Hence B's delegator must receive nothing and A's delegator everything.
func TestHuntWarmupAssetEarnsRewardsAccruedBeforeStart(t *testing.T) {
	app, ctx := createTestContext(t)
	startTime := time.Now().UTC()
	ctx = ctx.WithBlockTime(startTime).WithBlockHeight(1)

	params := types.DefaultParams()
	params.RewardDelayTime = time.Hour
	app.AllianceKeeper.InitGenesis(ctx, &types.GenesisState{Params: params})

	distParams, err := app.DistrKeeper.Params.Get(ctx)
	require.NoError(t, err)
	distParams.CommunityTax = math.LegacyZeroDec()
	require.NoError(t, app.DistrKeeper.Params.Set(ctx, distParams))

	msgServer := keeper.NewMsgServerImpl(app.AllianceKeeper)
	authority := app.AllianceKeeper.GetAuthority()

	delegations, err := app.StakingKeeper.GetAllDelegations(ctx)
	require.NoError(t, err)
	valAddr, err := sdk.ValAddressFromBech32(delegations[0].ValidatorAddress)
	require.NoError(t, err)

	addrs := test_helpers.AddTestAddrsIncremental(app, ctx, 2, sdk.NewCoins(
		sdk.NewCoin(AllianceDenom, math.NewInt(1000_000)),
		sdk.NewCoin(AllianceDenomTwo, math.NewInt(1000_000)),
	))
	userA, userB := addrs[0], addrs[1]

	nextBlock := func(d time.Duration) {
		ctx = ctx.WithBlockHeight(ctx.BlockHeight() + 1).WithBlockTime(ctx.BlockTime().Add(d))
	}
	endBlock := func() {
		require.NoError(t, alliance.EndBlocker(ctx, app.AllianceKeeper))
	}

	// Block 1: governance creates asset A (weight 1, no take rate, no decay)
	_, err = msgServer.CreateAlliance(ctx, &types.MsgCreateAlliance{
		Authority:            authority,
		Denom:                AllianceDenom,
		RewardWeight:         math.LegacyOneDec(),
		RewardWeightRange:    types.RewardWeightRange{Min: math.LegacyZeroDec(), Max: math.LegacyNewDec(5)},
		TakeRate:             math.LegacyZeroDec(),
		RewardChangeRate:     math.LegacyOneDec(),
		RewardChangeInterval: 0,
	})
	require.NoError(t, err)
	endBlock()

	// Block 2 (t0+2h): A is active. userA delegates A; governance creates asset B (start = t0+3h)
	nextBlock(2 * time.Hour)
	_, err = msgServer.Delegate(ctx, &types.MsgDelegate{
		DelegatorAddress: userA.String(), ValidatorAddress: valAddr.String(),
		Amount: sdk.NewCoin(AllianceDenom, math.NewInt(1000_000)),
	})
	require.NoError(t, err)
	_, err = msgServer.CreateAlliance(ctx, &types.MsgCreateAlliance{
		Authority:            authority,
		Denom:                AllianceDenomTwo,
		RewardWeight:         math.LegacyOneDec(),
		RewardWeightRange:    types.RewardWeightRange{Min: math.LegacyZeroDec(), Max: math.LegacyNewDec(5)},
		TakeRate:             math.LegacyZeroDec(),
		RewardChangeRate:     math.LegacyOneDec(),
		RewardChangeInterval: 0,
	})
	require.NoError(t, err)
	endBlock()
	assetB, found := app.AllianceKeeper.GetAssetByDenom(ctx, AllianceDenomTwo)
	require.True(t, found)
	require.Equal(t, ctx.BlockTime().Add(time.Hour), assetB.RewardStartTime)

	// Block 3 (t0+2h10m): B in warm-up. userB delegates B to the same validator.
	nextBlock(10 * time.Minute)
	_, err = msgServer.Delegate(ctx, &types.MsgDelegate{
		DelegatorAddress: userB.String(), ValidatorAddress: valAddr.String(),
		Amount: sdk.NewCoin(AllianceDenomTwo, math.NewInt(1000_000)),
	})
	require.NoError(t, err)
	endBlock()

	// Block 4 (t0+2h20m): still warm-up. x/distribution allocates the fees of the previous block.
	nextBlock(10 * time.Minute)
	require.False(t, assetB.RewardsStarted(ctx.BlockTime()))
	require.NoError(t, app.BankKeeper.MintCoins(ctx, minttypes.ModuleName, sdk.NewCoins(sdk.NewCoin("stake2", math.NewInt(4000_000)))))
	require.NoError(t, app.BankKeeper.SendCoinsFromModuleToModule(ctx, minttypes.ModuleName, authtypes.FeeCollectorName, sdk.NewCoins(sdk.NewCoin("stake2", math.NewInt(4000_000)))))
	val, err := app.AllianceKeeper.GetAllianceValidator(ctx, valAddr)
	require.NoError(t, err)
	cons, err := val.GetConsAddr()
	require.NoError(t, err)
	require.NoError(t, app.DistrKeeper.AllocateTokens(ctx, 1, []abcitypes.VoteInfo{{Validator: abcitypes.Validator{Address: cons, Power: 1}}}))
	endBlock()

	// what the module's stake earned during B's warm-up
	moduleAddr := app.AccountKeeper.GetModuleAddress(types.ModuleName)
	cacheCtx, _ := ctx.CacheContext()
	stVal, err := app.StakingKeeper.GetValidator(cacheCtx, valAddr)
	require.NoError(t, err)
	stDel, err := app.StakingKeeper.GetDelegation(cacheCtx, moduleAddr, valAddr)
	require.NoError(t, err)
	endingPeriod, err := app.DistrKeeper.IncrementValidatorPeriod(cacheCtx, stVal)
	require.NoError(t, err)
	pending, err := app.DistrKeeper.CalculateDelegationRewards(cacheCtx, stVal, stDel, endingPeriod)
	require.NoError(t, err)
	moduleRewards := pending.AmountOf("stake2").TruncateInt()
	require.True(t, moduleRewards.IsPositive())
	t.Logf("module rewards accrued during B's warm-up: %s stake2", moduleRewards)

	// Block 5 (t0+3h30m): B's reward start time has passed. No new rewards are allocated.
	nextBlock(70 * time.Minute)
	endBlock()
	assetB, _ = app.AllianceKeeper.GetAssetByDenom(ctx, AllianceDenomTwo)
	require.True(t, assetB.RewardsStarted(ctx.BlockTime()))
	require.True(t, assetB.IsInitialized)

	// Block 6: both claim
	nextBlock(time.Minute)
	balB0 := app.BankKeeper.GetBalance(ctx, userB, "stake2").Amount
	balA0 := app.BankKeeper.GetBalance(ctx, userA, "stake2").Amount
	_, err = msgServer.ClaimDelegationRewards(ctx, &types.MsgClaimDelegationRewards{
		DelegatorAddress: userB.String(), ValidatorAddress: valAddr.String(), Denom: AllianceDenomTwo,
	})
	require.NoError(t, err)
	_, err = msgServer.ClaimDelegationRewards(ctx, &types.MsgClaimDelegationRewards{
		DelegatorAddress: userA.String(), ValidatorAddress: valAddr.String(), Denom: AllianceDenom,
	})
	require.NoError(t, err)
	gotB := app.BankKeeper.GetBalance(ctx, userB, "stake2").Amount.Sub(balB0)
	gotA := app.BankKeeper.GetBalance(ctx, userA, "stake2").Amount.Sub(balA0)
	t.Logf("userA (asset A, active all the time) got %s, userB (asset B, in warm-up when the rewards were received) got %s", gotA, gotB)

	require.True(t, gotB.IsZero(), "asset B earned %s stake2 of rewards that were all received before its reward start time", gotB)
	require.True(t, gotA.GTE(moduleRewards.SubRaw(2)), "asset A's delegator got %s of the %s earned by A's voting power", gotA, moduleRewards)
}

// C14: "with decay configured it becomes clamp(w x rate^n) after n whole change intervals".
// With a growth rate > 1 the end blocker computes rate^n unclamped; for n large enough
// (short interval, or a long gap between two blocks) LegacyDec overflows and the end blocker panics
// instead of setting the weight to RewardWeightRange.Max. The panic repeats in every later block.
func TestHuntDecayCatchUpOverflow(t *testing.T) {
	app, ctx := createTestContext(t)
	startTime := time.Now().UTC()
	ctx = ctx.WithBlockTime(startTime).WithBlockHeight(1)
	params := types.DefaultParams()
	params.RewardDelayTime = time.Hour
	app.AllianceKeeper.InitGenesis(ctx, &types.GenesisState{Params: params})
	msgServer := keeper.NewMsgServerImpl(app.AllianceKeeper)

	_, err := msgServer.CreateAlliance(ctx, &types.MsgCreateAlliance{
		Authority:            app.AllianceKeeper.GetAuthority(),
		Denom:                AllianceDenom,
		RewardWeight:         math.LegacyOneDec(),
		RewardWeightRange:    types.RewardWeightRange{Min: math.LegacyZeroDec(), Max: math.LegacyNewDec(5)},
		TakeRate:             math.LegacyZeroDec(),
		RewardChangeRate:     math.LegacyNewDec(2),
		RewardChangeInterval: time.Second,
	})
	require.NoError(t, err)
	require.NoError(t, alliance.EndBlocker(ctx, app.AllianceKeeper))

	// next block: 400 whole intervals after the reward start time
	ctx = ctx.WithBlockHeight(2).WithBlockTime(startTime.Add(time.Hour + 400*time.Second))
	require.NotPanics(t, func() {
		require.NoError(t, alliance.EndBlocker(ctx, app.AllianceKeeper))
	})
	asset, _ := app.AllianceKeeper.GetAssetByDenom(ctx, AllianceDenom)
	require.Equal(t, math.LegacyNewDec(5), asset.RewardWeight)
	require.Equal(t, startTime.Add(time.Hour+400*time.Second), asset.LastRewardChangeTime)
}
