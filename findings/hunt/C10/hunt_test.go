package tests_test

import (
	"fmt"
	"math/rand"
	"os"
	"testing"
	"time"

	"cosmossdk.io/math"
	sdk "github.com/cosmos/cosmos-sdk/types"
	teststaking "github.com/cosmos/cosmos-sdk/x/staking/testutil"
	stakingtypes "github.com/cosmos/cosmos-sdk/x/staking/types"
	"github.com/stretchr/testify/require"

	test_helpers "github.com/terra-money/alliance/app"
	"github.com/terra-money/alliance/x/alliance"
	"github.com/terra-money/alliance/x/alliance/keeper"
	"github.com/terra-money/alliance/x/alliance/types"
)

// c10Check states the C10 clause: every bonded validator carries alliance-minted stake equal to the
// sum over started assets of rewardWeight x native bonded stake x its fraction of the asset's bonded shares.
// Returns the largest deviation and a description.
func c10Check(t *testing.T, app *test_helpers.App, ctx sdk.Context) (math.LegacyDec, string) {
	t.Helper()
	moduleAddr := app.AccountKeeper.GetModuleAddress(types.ModuleName)
	totalBonded, err := app.StakingKeeper.TotalBondedTokens(ctx)
	require.NoError(t, err)

	type vinfo struct {
		addr   sdk.ValAddress
		val    stakingtypes.Validator
		info   types.AllianceValidatorInfo
		minted math.LegacyDec
	}
	var bonded []vinfo
	allianceBonded := math.LegacyZeroDec()
	err = app.AllianceKeeper.IterateAllianceValidatorInfo(ctx, func(valAddr sdk.ValAddress, info types.AllianceValidatorInfo) bool {
		val, err := app.StakingKeeper.GetValidator(ctx, valAddr)
		require.NoError(t, err)
		if !val.IsBonded() {
			return false
		}
		minted := math.LegacyZeroDec()
		del, err := app.StakingKeeper.GetDelegation(ctx, moduleAddr, valAddr)
		if err == nil {
			minted = val.TokensFromShares(del.Shares)
		}
		allianceBonded = allianceBonded.Add(minted)
		bonded = append(bonded, vinfo{valAddr, val, info, minted})
		return false
	})
	require.NoError(t, err)
	native := math.LegacyNewDecFromInt(totalBonded).Sub(allianceBonded)

	assets := app.AllianceKeeper.GetAllAssets(ctx)
	worst := math.LegacyZeroDec()
	desc := ""
	for _, v := range bonded {
		expected := math.LegacyZeroDec()
		for _, a := range assets {
			if !a.RewardsStarted(ctx.BlockTime()) {
				continue
			}
			bondedShares := math.LegacyZeroDec()
			for _, w := range bonded {
				bondedShares = bondedShares.Add(sdk.DecCoins(w.info.ValidatorShares).AmountOf(a.Denom))
			}
			vs := sdk.DecCoins(v.info.ValidatorShares).AmountOf(a.Denom)
			if vs.IsPositive() && bondedShares.IsPositive() {
				expected = expected.Add(a.RewardWeight.Mul(native).Mul(vs).Quo(bondedShares))
			}
		}
		dev := expected.Sub(v.minted).Abs()
		if dev.GT(worst) {
			worst = dev
			desc = fmt.Sprintf("validator %s expected %s minted %s native %s", v.addr.String(), expected, v.minted, native)
		}
	}
	return worst, desc
}

var fuzzTol int64 = 100

func TestHuntFuzz(t *testing.T) {
	for seed := int64(1); seed <= 12; seed++ {
		seed := seed
		t.Run(fmt.Sprintf("seed%d", seed), func(t *testing.T) { runFuzz(t, seed) })
	}
}

func runFuzz(t *testing.T, seed int64) {
	rng := rand.New(rand.NewSource(seed))
	app, ctx := createTestContext(t)
	bondDenom, err := app.StakingKeeper.BondDenom(ctx)
	require.NoError(t, err)
	startTime := time.Now()
	ctx = ctx.WithBlockTime(startTime).WithBlockHeight(1)
	app.AllianceKeeper.InitGenesis(ctx, &types.GenesisState{
		Params: types.DefaultParams(),
		Assets: []types.AllianceAsset{
			types.NewAllianceAsset(AllianceDenom, math.LegacyMustNewDecFromStr("0.3"), math.LegacyZeroDec(), math.LegacyNewDec(4), math.LegacyMustNewDecFromStr("0.00001"), startTime),
			types.NewAllianceAsset(AllianceDenomTwo, math.LegacyNewDec(2), math.LegacyZeroDec(), math.LegacyNewDec(12), math.LegacyZeroDec(), startTime.Add(10*time.Hour)),
		},
	})
	const nVals = 4
	const nUsers = 4
	addrs := test_helpers.AddTestAddrsIncremental(app, ctx, nVals+nUsers, sdk.NewCoins(
		sdk.NewCoin(bondDenom, math.NewInt(1_000_000_000)),
		sdk.NewCoin(AllianceDenom, math.NewInt(1_000_000_000)),
		sdk.NewCoin(AllianceDenomTwo, math.NewInt(1_000_000_000)),
	))
	pks := test_helpers.CreateTestPubKeys(nVals)
	var valAddrs []sdk.ValAddress
	for i := 0; i < nVals; i++ {
		valAddr := sdk.ValAddress(addrs[i])
		v := teststaking.NewValidator(t, valAddr, pks[i])
		v.Commission = stakingtypes.NewCommission(math.LegacyZeroDec(), math.LegacyOneDec(), math.LegacyZeroDec())
		v.MinSelfDelegation = math.OneInt()
		test_helpers.RegisterNewValidator(t, app, ctx, v)
		_, err = app.StakingKeeper.Delegate(ctx, addrs[i], math.NewInt(int64(1_000_000+rng.Intn(3_000_000))), stakingtypes.Unbonded, v, true)
		require.NoError(t, err)
		valAddrs = append(valAddrs, valAddr)
	}
	users := addrs[nVals:]
	denoms := []string{AllianceDenom, AllianceDenomTwo}
	ms := keeper.NewMsgServerImpl(app.AllianceKeeper)

	if seed%2 == 0 {
		sp, _ := app.StakingKeeper.GetParams(ctx)
		sp.MaxValidators = 3
		require.NoError(t, app.StakingKeeper.SetParams(ctx, sp))
		a2, _ := app.AllianceKeeper.GetAssetByDenom(ctx, AllianceDenomTwo)
		a2.RewardChangeRate = math.LegacyMustNewDecFromStr("0.97")
		a2.RewardChangeInterval = 7 * time.Hour
		require.NoError(t, app.AllianceKeeper.SetAsset(ctx, a2))
	}
	_, err = app.StakingKeeper.EndBlocker(ctx)
	require.NoError(t, err)

	for block := 2; block < 300; block++ {
		ctx = ctx.WithBlockHeight(int64(block)).WithBlockTime(ctx.BlockTime().Add(time.Duration(1+rng.Intn(200)) * time.Minute))
		if rng.Intn(15) == 0 {
			ctx = ctx.WithBlockTime(ctx.BlockTime().Add(22 * 24 * time.Hour))
		}
		nOps := rng.Intn(4)
		var log []string
		for i := 0; i < nOps; i++ {
			u := users[rng.Intn(nUsers)]
			va := valAddrs[rng.Intn(nVals)]
			vb := valAddrs[rng.Intn(nVals)]
			d := denoms[rng.Intn(2)]
			cctx, write := ctx.CacheContext()
			var opErr error
			var name string
			func() {
				defer func() {
					if r := recover(); r != nil {
						opErr = fmt.Errorf("panic: %v", r)
					}
				}()
				switch rng.Intn(9) {
				case 0, 1:
					amt := math.NewInt(int64(1 + rng.Intn(5_000_000)))
					name = fmt.Sprintf("adelegate %s %s", amt, d)
					_, opErr = ms.Delegate(cctx, &types.MsgDelegate{DelegatorAddress: u.String(), ValidatorAddress: va.String(), Amount: sdk.NewCoin(d, amt)})
				case 2:
					name = "aundelegate"
					del, found := app.AllianceKeeper.GetDelegation(cctx, u, va, d)
					if !found {
						opErr = fmt.Errorf("none")
						return
					}
					av, _ := app.AllianceKeeper.GetAllianceValidator(cctx, va)
					asset, _ := app.AllianceKeeper.GetAssetByDenom(cctx, d)
					bal := types.GetDelegationTokens(del, av, asset)
					if !bal.Amount.IsPositive() {
						opErr = fmt.Errorf("zero")
						return
					}
					amt := bal.Amount
					if rng.Intn(2) == 0 {
						amt = math.NewInt(1 + rng.Int63n(bal.Amount.Int64()))
					}
					_, opErr = ms.Undelegate(cctx, &types.MsgUndelegate{DelegatorAddress: u.String(), ValidatorAddress: va.String(), Amount: sdk.NewCoin(d, amt)})
				case 3:
					name = "aredelegate"
					del, found := app.AllianceKeeper.GetDelegation(cctx, u, va, d)
					if !found {
						opErr = fmt.Errorf("none")
						return
					}
					av, _ := app.AllianceKeeper.GetAllianceValidator(cctx, va)
					asset, _ := app.AllianceKeeper.GetAssetByDenom(cctx, d)
					bal := types.GetDelegationTokens(del, av, asset)
					if !bal.Amount.IsPositive() {
						opErr = fmt.Errorf("zero")
						return
					}
					amt := bal.Amount
					if rng.Intn(2) == 0 {
						amt = math.NewInt(1 + rng.Int63n(bal.Amount.Int64()))
					}
					_, opErr = ms.Redelegate(cctx, &types.MsgRedelegate{DelegatorAddress: u.String(), ValidatorSrcAddress: va.String(), ValidatorDstAddress: vb.String(), Amount: sdk.NewCoin(d, amt)})
				case 4:
					name = "ndelegate"
					val, _ := app.StakingKeeper.GetValidator(cctx, va)
					_, opErr = app.StakingKeeper.Delegate(cctx, u, math.NewInt(int64(1+rng.Intn(3_000_000))), stakingtypes.Unbonded, val, true)
				case 5:
					name = "nundelegate"
					del, err := app.StakingKeeper.GetDelegation(cctx, u, va)
					if err != nil {
						opErr = err
						return
					}
					sh := del.Shares
					if rng.Intn(2) == 0 {
						sh = sh.QuoInt64(int64(2 + rng.Intn(5)))
					}
					_, _, opErr = app.StakingKeeper.Undelegate(cctx, u, va, sh)
				case 6:
					name = "slash+jail"
					val, _ := app.StakingKeeper.GetValidator(cctx, va)
					if val.Jailed || !val.IsBonded() {
						opErr = fmt.Errorf("not bonded")
						return
					}
					cons, _ := val.GetConsAddr()
					fr := math.LegacyNewDecWithPrec(int64(1+rng.Intn(60)), 2)
					power := val.ConsensusPower(app.StakingKeeper.PowerReduction(cctx))
					_, opErr = app.StakingKeeper.Slash(cctx, cons, cctx.BlockHeight()-1, power, fr)
					if opErr == nil {
						opErr = app.StakingKeeper.Jail(cctx, cons)
					}
				case 7:
					name = "unjail"
					val, _ := app.StakingKeeper.GetValidator(cctx, va)
					if !val.Jailed {
						opErr = fmt.Errorf("not jailed")
						return
					}
					cons, _ := val.GetConsAddr()
					opErr = app.StakingKeeper.Unjail(cctx, cons)
				case 8:
					name = "updateweight"
					asset, _ := app.AllianceKeeper.GetAssetByDenom(cctx, d)
					asset.RewardWeight = math.LegacyNewDecWithPrec(int64(rng.Intn(300)), 2)
					opErr = app.AllianceKeeper.UpdateAllianceAsset(cctx, asset)
				}
			}()
			if opErr == nil {
				write()
				log = append(log, name)
			}
		}
		_, err = app.StakingKeeper.EndBlocker(ctx)
		require.NoError(t, err)
		dump := func(tag string) {
			moduleAddr := app.AccountKeeper.GetModuleAddress(types.ModuleName)
			tb, _ := app.StakingKeeper.TotalBondedTokens(ctx)
			t.Logf("block %d %s totalBonded %s ops %v", block, tag, tb, log)
			for _, va := range valAddrs {
				val, _ := app.StakingKeeper.GetValidator(ctx, va)
				info, _ := app.AllianceKeeper.GetAllianceValidatorInfo(ctx, va)
				sh := math.LegacyZeroDec()
				if del, err := app.StakingKeeper.GetDelegation(ctx, moduleAddr, va); err == nil {
					sh = del.Shares
				}
				t.Logf("   %s status %s jailed %v tokens %s shares %s moduleShares %s valshares %v", va.String()[40:], val.Status, val.Jailed, val.Tokens, val.DelegatorShares, sh, info.ValidatorShares)
			}
		}
		if os.Getenv("HUNT_DUMP") != "" {
			dump("before")
		}
		err = alliance.EndBlocker(ctx, app.AllianceKeeper)
		if os.Getenv("HUNT_DUMP") != "" {
			dump("after")
		}
		require.NoError(t, err, "block %d ops %v", block, log)

		for _, a := range app.AllianceKeeper.GetAllAssets(ctx) {
			sum := math.LegacyZeroDec()
			_ = app.AllianceKeeper.IterateAllianceValidatorInfo(ctx, func(valAddr sdk.ValAddress, info types.AllianceValidatorInfo) bool {
				sum = sum.Add(sdk.DecCoins(info.ValidatorShares).AmountOf(a.Denom))
				return false
			})
			if sum.Sub(a.TotalValidatorShares).Abs().GT(math.LegacyNewDecWithPrec(1, 6)) {
				t.Logf("block %d ops %v: %s sum(valshares) %s total %s diff %s tokens %s", block, log, a.Denom, sum, a.TotalValidatorShares, sum.Sub(a.TotalValidatorShares), a.TotalTokens)
			}
		}
		worst, desc := c10Check(t, app, ctx)
		if worst.GT(math.LegacyNewDec(fuzzTol)) {
			t.Fatalf("seed %d block %d ops %v: deviation %s: %s", seed, block, log, worst, desc)
		}
	}
}

type huntEnv struct {
	app      *test_helpers.App
	ctx      sdk.Context
	valAddrs []sdk.ValAddress
	users    []sdk.AccAddress
	ms       types.MsgServer
}

// huntSetup creates nVals bonded validators with the given native self-delegations and one started asset.
func huntSetup(t *testing.T, weight string, natives []math.Int, userFunds math.Int) *huntEnv {
	app, ctx := createTestContext(t)
	bondDenom, err := app.StakingKeeper.BondDenom(ctx)
	require.NoError(t, err)
	startTime := time.Now()
	ctx = ctx.WithBlockTime(startTime).WithBlockHeight(1)
	w := math.LegacyMustNewDecFromStr(weight)
	app.AllianceKeeper.InitGenesis(ctx, &types.GenesisState{
		Params: types.DefaultParams(),
		Assets: []types.AllianceAsset{
			types.NewAllianceAsset(AllianceDenom, w, math.LegacyZeroDec(), math.LegacyNewDec(25), math.LegacyZeroDec(), startTime),
		},
	})
	nVals := len(natives)
	addrs := test_helpers.AddTestAddrsIncremental(app, ctx, nVals+2, sdk.NewCoins(
		sdk.NewCoin(bondDenom, userFunds),
		sdk.NewCoin(AllianceDenom, userFunds),
	))
	pks := test_helpers.CreateTestPubKeys(nVals)
	env := &huntEnv{app: app, ms: keeper.NewMsgServerImpl(app.AllianceKeeper)}
	for i := 0; i < nVals; i++ {
		valAddr := sdk.ValAddress(addrs[i])
		v := teststaking.NewValidator(t, valAddr, pks[i])
		v.Commission = stakingtypes.NewCommission(math.LegacyZeroDec(), math.LegacyOneDec(), math.LegacyZeroDec())
		v.MinSelfDelegation = math.OneInt()
		test_helpers.RegisterNewValidator(t, app, ctx, v)
		_, err = app.StakingKeeper.Delegate(ctx, addrs[i], natives[i], stakingtypes.Unbonded, v, true)
		require.NoError(t, err)
		env.valAddrs = append(env.valAddrs, valAddr)
	}
	env.users = addrs[nVals:]
	env.ctx = ctx
	env.endBlock(t)
	return env
}

// endBlock runs the staking and the alliance end blockers in the order of app.go and opens the next block.
func (e *huntEnv) endBlock(t *testing.T) {
	_, err := e.app.StakingKeeper.EndBlocker(e.ctx)
	require.NoError(t, err)
	require.NoError(t, alliance.EndBlocker(e.ctx, e.app.AllianceKeeper))
}

func (e *huntEnv) nextBlock() {
	e.ctx = e.ctx.WithBlockHeight(e.ctx.BlockHeight() + 1).WithBlockTime(e.ctx.BlockTime().Add(time.Minute))
}

// C10: "each bonded validator carries alliance-minted stake equal to the sum over started assets of
// rewardWeight x native bonded stake x the validator's fraction of that asset's bonded shares, within two base units".
// The rebalance derives the native bonded stake from the module's delegations truncated per validator
// (TokensFromSharesTruncated + TruncateInt) and then multiplies by the reward weight, so the truncation
// error (up to one unit per bonded validator) is amplified by the weight.
func TestHuntWeightAmplifiesTruncatedNativeStake(t *testing.T) {
	m := func(i int64) math.Int { return math.NewInt(i) }
	e := huntSetup(t, "20", []math.Int{m(1_000_003), m(1_000_033)}, m(1_000_000_000))
	app := e.app
	v1, v2 := e.valAddrs[0], e.valAddrs[1]
	user := e.users[0]

	e.nextBlock()
	_, err := e.ms.Delegate(e.ctx, &types.MsgDelegate{DelegatorAddress: user.String(), ValidatorAddress: v1.String(), Amount: sdk.NewCoin(AllianceDenom, m(30_000_000))})
	require.NoError(t, err)
	_, err = e.ms.Delegate(e.ctx, &types.MsgDelegate{DelegatorAddress: user.String(), ValidatorAddress: v2.String(), Amount: sdk.NewCoin(AllianceDenom, m(10_000_000))})
	require.NoError(t, err)
	e.endBlock(t)
	worst, desc := c10Check(t, app, e.ctx)
	require.True(t, worst.LTE(math.LegacyNewDec(2)), "sanity, before the slash: %s %s", worst, desc)

	// downtime slash of validator 2 as x/slashing does it: Slash, then Jail
	e.nextBlock()
	val2, err := app.StakingKeeper.GetValidator(e.ctx, v2)
	require.NoError(t, err)
	cons2, err := val2.GetConsAddr()
	require.NoError(t, err)
	power := val2.ConsensusPower(app.StakingKeeper.PowerReduction(e.ctx))
	_, err = app.StakingKeeper.Slash(e.ctx, cons2, e.ctx.BlockHeight()-1, power, math.LegacyMustNewDecFromStr("0.01"))
	require.NoError(t, err)
	require.NoError(t, app.StakingKeeper.Jail(e.ctx, cons2))
	e.endBlock(t)

	// the operator unjails, validator 2 is bonded again; its exchange rate is no longer 1
	e.nextBlock()
	require.NoError(t, app.StakingKeeper.Unjail(e.ctx, cons2))
	e.endBlock(t)
	val2, _ = app.StakingKeeper.GetValidator(e.ctx, v2)
	require.True(t, val2.IsBonded())

	// a few more blocks with a small alliance delegation each: a rebalance runs at the end of each of them
	for i := 0; i < 6; i++ {
		e.nextBlock()
		_, err = e.ms.Delegate(e.ctx, &types.MsgDelegate{DelegatorAddress: user.String(), ValidatorAddress: v2.String(), Amount: sdk.NewCoin(AllianceDenom, m(1_000+int64(i)*7))})
		require.NoError(t, err)
		e.endBlock(t)
		worst, desc = c10Check(t, app, e.ctx)
		t.Logf("block %d: largest deviation %s (%s)", e.ctx.BlockHeight(), worst, desc)
		// attribution: what the rebalance subtracts (truncated per validator) against the module's real stake
		moduleAddr := app.AccountKeeper.GetModuleAddress(types.ModuleName)
		truncated, err := app.AllianceKeeper.GetAllianceBondedAmount(e.ctx, moduleAddr)
		require.NoError(t, err)
		exact := math.LegacyZeroDec()
		for _, va := range e.valAddrs {
			val, _ := app.StakingKeeper.GetValidator(e.ctx, va)
			if del, err := app.StakingKeeper.GetDelegation(e.ctx, moduleAddr, va); err == nil && val.IsBonded() {
				exact = exact.Add(val.TokensFromShares(del.Shares))
			}
		}
		t.Logf("   module stake exact %s, as used by the rebalance %s: native overstated by %s, times weight 20", exact, truncated, exact.Sub(math.LegacyNewDecFromInt(truncated)))
		require.True(t, worst.LTE(math.LegacyNewDec(2)), "C10 violated at block %d: deviation %s base units: %s", e.ctx.BlockHeight(), worst, desc)
	}
}

// Same clause with stakes of the size of an 18-decimals chain: the rebalance computes
// valShares.Quo(bondedValidatorShares).Mul(rewardWeight x native): the quotient is rounded to 18 decimals before it is
// multiplied by a 24 digit amount, the target is off by far more than two base units.
func TestHuntRebalanceLosesPrecisionWithHugeStakes(t *testing.T) {
	p := func(s string) math.Int { i, ok := math.NewIntFromString(s); require.True(t, ok); return i }
	e := huntSetup(t, "0.3", []math.Int{p("300000000000000000000007"), p("300000000000000000000011"), p("300000000000000000000013")}, p("900000000000000000000000000"))
	app := e.app
	user := e.users[0]
	e.nextBlock()
	amts := []string{"100000000000000000000003", "200000000000000000000009", "400000000000000000000027"}
	for i, a := range amts {
		_, err := e.ms.Delegate(e.ctx, &types.MsgDelegate{DelegatorAddress: user.String(), ValidatorAddress: e.valAddrs[i].String(), Amount: sdk.NewCoin(AllianceDenom, p(a))})
		require.NoError(t, err)
	}
	e.endBlock(t)
	worst, desc := c10Check(t, app, e.ctx)
	t.Logf("largest deviation %s (%s)", worst, desc)
	// attribution: the code's formula (divide first) against multiply first, for every validator
	moduleAddr := app.AccountKeeper.GetModuleAddress(types.ModuleName)
	tb, _ := app.StakingKeeper.TotalBondedTokens(e.ctx)
	ab, _ := app.AllianceKeeper.GetAllianceBondedAmount(e.ctx, moduleAddr)
	asset, _ := app.AllianceKeeper.GetAssetByDenom(e.ctx, AllianceDenom)
	forAsset := asset.RewardWeight.MulInt(tb.Sub(ab))
	for _, va := range e.valAddrs {
		info, _ := app.AllianceKeeper.GetAllianceValidatorInfo(e.ctx, va)
		vs := sdk.DecCoins(info.ValidatorShares).AmountOf(AllianceDenom)
		t.Logf("   %s divide-first %s multiply-first %s", va.String(), vs.Quo(asset.TotalValidatorShares).Mul(forAsset), vs.Mul(forAsset).Quo(asset.TotalValidatorShares))
	}
	require.True(t, worst.LTE(math.LegacyNewDec(2)), "C10 violated: deviation %s base units: %s", worst, desc)
}
