package tests_test

import (
	"testing"
	"time"

	"cosmossdk.io/math"

	sdk "github.com/cosmos/cosmos-sdk/types"
	stakingkeeper "github.com/cosmos/cosmos-sdk/x/staking/keeper"
	stakingtypes "github.com/cosmos/cosmos-sdk/x/staking/types"
	"github.com/stretchr/testify/require"

	test_helpers "github.com/terra-money/alliance/app"
	"github.com/terra-money/alliance/x/alliance"
	"github.com/terra-money/alliance/x/alliance/keeper"
	"github.com/terra-money/alliance/x/alliance/types"
)

// huntSlashEscape runs one chain history, only through message servers, the staking keeper entry points used by
// x/staking / x/slashing, and the end blockers:
//
//	block 1: gov creates the alliance; operator creates validator V2 with < 1 power of self stake (stays Unbonded)
//	block 2: D delegates 1_000_000 to V1 (genesis validator, bonded), redelegates 400_000 V1 -> V2,
//	         undelegates 300_000 from V1 (the entry under test, completion = t2 + unbondingTime)
//	block 3: D undelegates its whole V2 position; if removeDst, the V2 operator unbonds its whole self stake, so
//	         x/staking removes V2 (Unbonded, zero shares) - no alliance delegation is left on V2 at that moment
//	block 4: V1 is slashed by x/slashing (double sign fraction) - the entry on V1 is still pending
//	later  : first end blocker with block time > completion pays the entry
//
// It returns the amount undelegated, the amount paid, and the amount the property demands (a minus the slash).
func huntSlashEscape(t *testing.T, removeDst bool) (undelegated, paid, expected, paidBystander math.Int) {
	app, ctx := createTestContext(t)
	t0 := time.Date(2026, 1, 1, 0, 0, 0, 0, time.UTC)
	ctx = ctx.WithBlockTime(t0).WithBlockHeight(10)
	allianceMsg := keeper.NewMsgServerImpl(app.AllianceKeeper)
	stakingMsg := stakingkeeper.NewMsgServerImpl(app.StakingKeeper)
	bondDenom, err := app.StakingKeeper.BondDenom(ctx)
	require.NoError(t, err)
	unbondingTime, err := app.StakingKeeper.UnbondingTime(ctx)
	require.NoError(t, err)

	endBlock := func(ctx sdk.Context) {
		_, err := app.StakingKeeper.EndBlocker(ctx)
		require.NoError(t, err)
		require.NoError(t, alliance.EndBlocker(ctx, app.AllianceKeeper))
	}

	// ---- block 1: alliance asset (active after 1s) and validator V2
	_, err = allianceMsg.UpdateParams(ctx, &types.MsgUpdateParams{
		Authority: app.AllianceKeeper.GetAuthority(),
		Params: types.Params{
			RewardDelayTime:       time.Second,
			TakeRateClaimInterval: 5 * time.Minute,
			LastTakeRateClaimTime: t0,
		},
	})
	require.NoError(t, err)
	_, err = allianceMsg.CreateAlliance(ctx, &types.MsgCreateAlliance{
		Authority:            app.AllianceKeeper.GetAuthority(),
		Denom:                AllianceDenom,
		RewardWeight:         math.LegacyMustNewDecFromStr("0.1"),
		RewardWeightRange:    types.RewardWeightRange{Min: math.LegacyZeroDec(), Max: math.LegacyOneDec()},
		TakeRate:             math.LegacyZeroDec(),
		RewardChangeRate:     math.LegacyOneDec(),
		RewardChangeInterval: 0,
	})
	require.NoError(t, err)

	addrs := test_helpers.AddTestAddrsIncremental(app, ctx, 3, sdk.NewCoins(
		sdk.NewCoin(AllianceDenom, math.NewInt(10_000_000)),
		sdk.NewCoin(bondDenom, math.NewInt(10_000_000)),
	))
	operator2, delegator, bystander := addrs[0], addrs[1], addrs[2]
	valAddr2 := sdk.ValAddress(operator2)
	pk := test_helpers.CreateTestPubKeys(1)[0]
	createMsg, err := stakingtypes.NewMsgCreateValidator(
		valAddr2.String(), pk, sdk.NewCoin(bondDenom, math.NewInt(500_000)),
		stakingtypes.Description{Moniker: "v2"},
		stakingtypes.NewCommissionRates(math.LegacyZeroDec(), math.LegacyOneDec(), math.LegacyOneDec()),
		math.OneInt(),
	)
	require.NoError(t, err)
	_, err = stakingMsg.CreateValidator(ctx, createMsg)
	require.NoError(t, err)
	endBlock(ctx)

	// V1 = the bonded genesis validator
	nativeDelegations, err := app.StakingKeeper.GetAllDelegations(ctx)
	require.NoError(t, err)
	var valAddr1 sdk.ValAddress
	for _, d := range nativeDelegations {
		if d.ValidatorAddress != valAddr2.String() {
			valAddr1, err = sdk.ValAddressFromBech32(d.ValidatorAddress)
			require.NoError(t, err)
		}
	}
	require.NotNil(t, valAddr1)
	sv2, err := app.StakingKeeper.GetValidator(ctx, valAddr2)
	require.NoError(t, err)
	require.True(t, sv2.IsUnbonded(), "V2 has less than one unit of power and stays unbonded")

	// ---- block 2: delegate, redelegate, undelegate
	t2 := t0.Add(time.Minute)
	ctx = ctx.WithBlockTime(t2).WithBlockHeight(11)
	_, err = allianceMsg.Delegate(ctx, &types.MsgDelegate{DelegatorAddress: delegator.String(), ValidatorAddress: valAddr1.String(), Amount: sdk.NewCoin(AllianceDenom, math.NewInt(1_000_000))})
	require.NoError(t, err)
	_, err = allianceMsg.Redelegate(ctx, &types.MsgRedelegate{DelegatorAddress: delegator.String(), ValidatorSrcAddress: valAddr1.String(), ValidatorDstAddress: valAddr2.String(), Amount: sdk.NewCoin(AllianceDenom, math.NewInt(400_000))})
	require.NoError(t, err)
	undelegated = math.NewInt(300_000)
	_, err = allianceMsg.Undelegate(ctx, &types.MsgUndelegate{DelegatorAddress: delegator.String(), ValidatorAddress: valAddr1.String(), Amount: sdk.NewCoin(AllianceDenom, undelegated)})
	require.NoError(t, err)
	// a second delegator that never touches V2 undelegates the same amount from V1 in the same block
	_, err = allianceMsg.Delegate(ctx, &types.MsgDelegate{DelegatorAddress: bystander.String(), ValidatorAddress: valAddr1.String(), Amount: sdk.NewCoin(AllianceDenom, math.NewInt(1_000_000))})
	require.NoError(t, err)
	_, err = allianceMsg.Undelegate(ctx, &types.MsgUndelegate{DelegatorAddress: bystander.String(), ValidatorAddress: valAddr1.String(), Amount: sdk.NewCoin(AllianceDenom, undelegated)})
	require.NoError(t, err)
	completion := t2.Add(unbondingTime)
	endBlock(ctx)

	// ---- block 3: D leaves V2 completely; the operator of V2 leaves too => x/staking removes V2
	ctx = ctx.WithBlockTime(t2.Add(time.Hour)).WithBlockHeight(12)
	_, err = allianceMsg.Undelegate(ctx, &types.MsgUndelegate{DelegatorAddress: delegator.String(), ValidatorAddress: valAddr2.String(), Amount: sdk.NewCoin(AllianceDenom, math.NewInt(400_000))})
	require.NoError(t, err)
	_, found := app.AllianceKeeper.GetDelegation(ctx, delegator, valAddr2, AllianceDenom)
	require.False(t, found, "no alliance delegation is left on V2")
	if removeDst {
		_, err = stakingMsg.Undelegate(ctx, &stakingtypes.MsgUndelegate{DelegatorAddress: operator2.String(), ValidatorAddress: valAddr2.String(), Amount: sdk.NewCoin(bondDenom, math.NewInt(500_000))})
		require.NoError(t, err)
		_, err = app.StakingKeeper.GetValidator(ctx, valAddr2)
		require.Error(t, err, "x/staking removed V2")
	}
	endBlock(ctx)

	// the entry under test is intact and pending
	unbondings, err := app.AllianceKeeper.GetUnbondings(ctx, AllianceDenom, delegator, valAddr1)
	require.NoError(t, err)
	require.Len(t, unbondings, 1)
	require.Equal(t, undelegated, unbondings[0].Amount)
	require.Equal(t, completion, unbondings[0].CompletionTime)

	// ---- block 4: V1 is slashed while the entry is pending
	ctx = ctx.WithBlockTime(t2.Add(2 * time.Hour)).WithBlockHeight(13)
	sv1, err := app.StakingKeeper.GetValidator(ctx, valAddr1)
	require.NoError(t, err)
	consAddr1, err := sv1.GetConsAddr()
	require.NoError(t, err)
	power := sv1.GetConsensusPower(app.StakingKeeper.PowerReduction(ctx))
	fraction, err := app.SlashingKeeper.SlashFractionDoubleSign(ctx)
	require.NoError(t, err)
	// the fraction x/staking hands to the BeforeValidatorSlashed hook
	slashAmount := math.LegacyNewDecFromInt(app.StakingKeeper.TokensFromConsensusPower(ctx, power)).Mul(fraction).TruncateInt()
	effectiveFraction := math.LegacyNewDecFromInt(math.MinInt(slashAmount, sv1.Tokens)).QuoRoundUp(math.LegacyNewDecFromInt(sv1.Tokens))
	require.True(t, effectiveFraction.IsPositive())

	// what the hook answers (on a throw-away branch of the state; x/staking only logs this error)
	cacheCtx, _ := ctx.CacheContext()
	hookErr := app.AllianceKeeper.StakingHooks().BeforeValidatorSlashed(cacheCtx, valAddr1, effectiveFraction)
	t.Logf("removeDst=%v: BeforeValidatorSlashed(V1, %s) returns: %v", removeDst, effectiveFraction, hookErr)

	av1Before, err := app.AllianceKeeper.GetAllianceValidator(ctx, valAddr1)
	require.NoError(t, err)
	sharesBefore := av1Before.ValidatorSharesWithDenom(AllianceDenom)
	require.NoError(t, app.SlashingKeeper.Slash(ctx, consAddr1, fraction, power, ctx.BlockHeight()-1))
	av1After, err := app.AllianceKeeper.GetAllianceValidator(ctx, valAddr1)
	require.NoError(t, err)
	sharesAfter := av1After.ValidatorSharesWithDenom(AllianceDenom)
	require.True(t, sharesAfter.LT(sharesBefore), "the slash was applied to V1's alliance position (%s -> %s)", sharesBefore, sharesAfter)
	endBlock(ctx)

	// ---- maturity
	expected = undelegated.Sub(effectiveFraction.MulInt(undelegated).TruncateInt())

	ctx = ctx.WithBlockTime(completion).WithBlockHeight(14)
	balBefore := app.BankKeeper.GetBalance(ctx, delegator, AllianceDenom).Amount
	balBeforeBystander := app.BankKeeper.GetBalance(ctx, bystander, AllianceDenom).Amount
	endBlock(ctx)
	require.Equal(t, balBefore, app.BankKeeper.GetBalance(ctx, delegator, AllianceDenom).Amount, "nothing is paid at block time == completion")

	ctx = ctx.WithBlockTime(completion.Add(time.Nanosecond)).WithBlockHeight(15)
	// the V2 entry of block 3 matures later; only the V1 entry is paid here
	endBlock(ctx)
	paid = app.BankKeeper.GetBalance(ctx, delegator, AllianceDenom).Amount.Sub(balBefore)
	paidBystander = app.BankKeeper.GetBalance(ctx, bystander, AllianceDenom).Amount.Sub(balBeforeBystander)
	t.Logf("removeDst=%v: undelegated=%s slashFraction=%s expectedPayout=%s paid=%s paidToBystander=%s", removeDst, undelegated, effectiveFraction, expected, paid, paidBystander)
	return undelegated, paid, expected, paidBystander
}

// Control: the same history without the removal of V2 - the pending entry is slashed as the property demands.
func TestHuntSlashEscapeControl(t *testing.T) {
	undelegated, paid, expected, paidBystander := huntSlashEscape(t, false)
	require.True(t, expected.LT(undelegated))
	require.Equal(t, expected, paid)
	require.Equal(t, expected, paidBystander)
}

// C02 "exact amount": the payout equals a minus the slashes applied to V while the entry was pending.
// FAILS on the unmodified code: the entry on V1 is paid in full although V1 was slashed while it was pending,
// because the delegator also holds a (finished, fully withdrawn) redelegation record V1 -> V2 and V2 no longer exists.
func TestHuntSlashEscapeRemovedRedelegationDestination(t *testing.T) {
	undelegated, paid, expected, paidBystander := huntSlashEscape(t, true)
	require.True(t, expected.LT(undelegated))
	require.Equal(t, expected.String(), paid.String(),
		"payout of an entry of %s that was pending while V1 was slashed must be %s, got %s", undelegated, expected, paid)
	// (not reached on the unmodified code) the entries of every other delegator of V1 escape the slash as well
	require.Equal(t, expected.String(), paidBystander.String())
}

// Same defect seen from a delegator that has no redelegation at all: its pending entry on V1 also escapes the slash,
// because SlashValidator returns before slashUndelegations runs.
func TestHuntSlashEscapeBystander(t *testing.T) {
	undelegated, _, expected, paidBystander := huntSlashEscape(t, true)
	require.True(t, expected.LT(undelegated))
	require.Equal(t, expected.String(), paidBystander.String(),
		"payout of an entry of %s that was pending while V1 was slashed must be %s, got %s", undelegated, expected, paidBystander)
}

// C02 "exactly one payout equal to a ... at the first end-of-block whose block time is strictly later than t + unbonding
// period": governance creates an alliance for the staking bond denom (MsgCreateAlliance accepts it). CompleteUnbondings
// burns the module account's whole bond-denom balance at the end of every block as "virtual staking tokens" - that is
// the delegators' principal. The matured entry cannot be paid and the end blocker returns an error.
func TestHuntBondDenomAlliancePrincipalBurned(t *testing.T) {
	app, ctx := createTestContext(t)
	t0 := time.Date(2026, 1, 1, 0, 0, 0, 0, time.UTC)
	ctx = ctx.WithBlockTime(t0).WithBlockHeight(10)
	allianceMsg := keeper.NewMsgServerImpl(app.AllianceKeeper)
	bondDenom, err := app.StakingKeeper.BondDenom(ctx)
	require.NoError(t, err)
	unbondingTime, err := app.StakingKeeper.UnbondingTime(ctx)
	require.NoError(t, err)

	_, err = allianceMsg.CreateAlliance(ctx, &types.MsgCreateAlliance{
		Authority:            app.AllianceKeeper.GetAuthority(),
		Denom:                bondDenom,
		RewardWeight:         math.LegacyMustNewDecFromStr("0.1"),
		RewardWeightRange:    types.RewardWeightRange{Min: math.LegacyZeroDec(), Max: math.LegacyOneDec()},
		TakeRate:             math.LegacyZeroDec(),
		RewardChangeRate:     math.LegacyOneDec(),
		RewardChangeInterval: 0,
	})
	require.NoError(t, err, "the governance handler accepts the bond denom")

	delegator := test_helpers.AddTestAddrsIncremental(app, ctx, 1, sdk.NewCoins(sdk.NewCoin(bondDenom, math.NewInt(10_000_000))))[0]
	nativeDelegations, err := app.StakingKeeper.GetAllDelegations(ctx)
	require.NoError(t, err)
	valAddr := nativeDelegations[0].ValidatorAddress

	amount := math.NewInt(1_000_000)
	_, err = allianceMsg.Delegate(ctx, &types.MsgDelegate{DelegatorAddress: delegator.String(), ValidatorAddress: valAddr, Amount: sdk.NewCoin(bondDenom, amount)})
	require.NoError(t, err)
	require.NoError(t, alliance.EndBlocker(ctx, app.AllianceKeeper))

	ctx = ctx.WithBlockTime(t0.Add(time.Hour)).WithBlockHeight(11)
	_, err = allianceMsg.Undelegate(ctx, &types.MsgUndelegate{DelegatorAddress: delegator.String(), ValidatorAddress: valAddr, Amount: sdk.NewCoin(bondDenom, amount)})
	require.NoError(t, err, "the undelegation is successful")
	completion := ctx.BlockTime().Add(unbondingTime)
	require.NoError(t, alliance.EndBlocker(ctx, app.AllianceKeeper))

	ctx = ctx.WithBlockTime(completion.Add(time.Second)).WithBlockHeight(12)
	balBefore := app.BankKeeper.GetBalance(ctx, delegator, bondDenom).Amount
	err = alliance.EndBlocker(ctx, app.AllianceKeeper)
	require.NoError(t, err, "the end blocker must pay the matured entry")
	require.Equal(t, amount.String(), app.BankKeeper.GetBalance(ctx, delegator, bondDenom).Amount.Sub(balBefore).String())
}
