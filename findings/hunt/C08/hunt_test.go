package tests_test

import (
	"testing"
	"time"

	"cosmossdk.io/math"

	test_helpers "github.com/terra-money/alliance/app"
	"github.com/terra-money/alliance/x/alliance"
	"github.com/terra-money/alliance/x/alliance/keeper"
	"github.com/terra-money/alliance/x/alliance/types"

	sdk "github.com/cosmos/cosmos-sdk/types"
	teststaking "github.com/cosmos/cosmos-sdk/x/staking/testutil"
	stakingtypes "github.com/cosmos/cosmos-sdk/x/staking/types"
	"github.com/stretchr/testify/require"
)

// C08: the slash callback must return without error, having slashed the pending unbondings of the
// slashed validator and having queued a rebalance.
//
// Scenario: a delegator redelegates A -> B where B is an unbonded (jailed, out of the active set)
// validator, then undelegates everything from B. B's operator withdraws the self delegation, x/staking
// removes B (unbonded + zero shares). The redelegation record/index A -> B is still pending. A is
// slashed: slashRedelegations looks up the destination validator BEFORE checking whether there is
// anything left to slash and fails with "validator ... does not exist".
func TestHuntSlashFailsWhenRedelegationDestinationValidatorWasRemoved(t *testing.T) {
	app, ctx := createTestContext(t)
	startTime := time.Now()
	ctx = ctx.WithBlockTime(startTime).WithBlockHeight(1)
	app.AllianceKeeper.InitGenesis(ctx, &types.GenesisState{
		Params: types.DefaultParams(),
		Assets: []types.AllianceAsset{
			types.NewAllianceAsset(AllianceDenom, math.LegacyNewDecWithPrec(5, 1), math.LegacyZeroDec(), math.LegacyOneDec(), math.LegacyZeroDec(), startTime),
		},
	})
	bondDenom, err := app.StakingKeeper.BondDenom(ctx)
	require.NoError(t, err)
	unbondingTime, err := app.StakingKeeper.UnbondingTime(ctx)
	require.NoError(t, err)

	addrs := test_helpers.AddTestAddrsIncremental(app, ctx, 3, sdk.NewCoins(
		sdk.NewCoin(bondDenom, math.NewInt(10_000_000)),
		sdk.NewCoin(AllianceDenom, math.NewInt(50_000_000)),
	))
	pks := test_helpers.CreateTestPubKeys(2)
	valAddrA := sdk.ValAddress(addrs[0])
	valAddrB := sdk.ValAddress(addrs[1])
	user := addrs[2]

	msgServer := keeper.NewMsgServerImpl(app.AllianceKeeper)
	tstaking := teststaking.NewHelper(t, ctx, app.StakingKeeper)
	tstaking.Denom = bondDenom

	// end of block: x/staking end blocker, then the alliance end blocker; returns the ctx of the next block
	nextBlock := func(ctx sdk.Context, dt time.Duration) sdk.Context {
		_, err := app.StakingKeeper.EndBlocker(ctx)
		require.NoError(t, err)
		require.NoError(t, alliance.EndBlocker(ctx, app.AllianceKeeper))
		ctx = ctx.WithBlockHeight(ctx.BlockHeight() + 1).WithBlockTime(ctx.BlockTime().Add(dt))
		tstaking.Ctx = ctx
		return ctx
	}

	// Block 1: validators A and B are created through the staking msg server
	tstaking.CreateValidator(valAddrA, pks[0], math.NewInt(1_000_000), true)
	tstaking.CreateValidator(valAddrB, pks[1], math.NewInt(1_000_000), true)
	ctx = nextBlock(ctx, time.Minute)
	tstaking.CheckValidator(valAddrA, stakingtypes.Bonded, false)
	valB := tstaking.CheckValidator(valAddrB, stakingtypes.Bonded, false)

	// Block 2: B is jailed for downtime (what x/slashing does) and leaves the active set
	consB, err := valB.GetConsAddr()
	require.NoError(t, err)
	require.NoError(t, app.SlashingKeeper.Jail(ctx, consB))
	ctx = nextBlock(ctx, unbondingTime+time.Hour)
	// Block 3: B's unbonding period is over, B is unbonded (and still holds its self delegation)
	ctx = nextBlock(ctx, time.Minute)
	tstaking.CheckValidator(valAddrB, stakingtypes.Unbonded, true)

	// Block 4: the user delegates 10 to A
	_, err = msgServer.Delegate(ctx, types.NewMsgDelegate(user.String(), valAddrA.String(), sdk.NewCoin(AllianceDenom, math.NewInt(10_000_000))))
	require.NoError(t, err)
	ctx = nextBlock(ctx, time.Minute)

	// Block 5: the user redelegates 5 from A to B and starts to unbond 2 from A
	redelegationTime := ctx.BlockTime()
	_, err = msgServer.Redelegate(ctx, types.NewMsgRedelegate(user.String(), valAddrA.String(), valAddrB.String(), sdk.NewCoin(AllianceDenom, math.NewInt(5_000_000))))
	require.NoError(t, err)
	_, err = msgServer.Undelegate(ctx, types.NewMsgUndelegate(user.String(), valAddrA.String(), sdk.NewCoin(AllianceDenom, math.NewInt(2_000_000))))
	require.NoError(t, err)
	ctx = nextBlock(ctx, time.Minute)

	// Block 6: the user undelegates everything from B
	_, err = msgServer.Undelegate(ctx, types.NewMsgUndelegate(user.String(), valAddrB.String(), sdk.NewCoin(AllianceDenom, math.NewInt(5_000_000))))
	require.NoError(t, err)
	_, found := app.AllianceKeeper.GetDelegation(ctx, user, valAddrB, AllianceDenom)
	require.False(t, found)
	infoB, found := app.AllianceKeeper.GetAllianceValidatorInfo(ctx, valAddrB)
	require.True(t, found)
	require.True(t, sdk.DecCoins(infoB.TotalDelegatorShares).IsZero(), "no alliance delegation is left on B: %s", infoB.TotalDelegatorShares)
	ctx = nextBlock(ctx, time.Minute)

	// Block 7: B's operator withdraws the self delegation; B is unbonded with zero shares and x/staking removes it
	tstaking.Undelegate(addrs[1], valAddrB, math.NewInt(1_000_000), true)
	_, err = app.StakingKeeper.GetValidator(ctx, valAddrB)
	require.ErrorIs(t, err, stakingtypes.ErrNoValidatorFound)
	ctx = nextBlock(ctx, time.Minute)

	// Block 8: A double signs, still within the unbonding period of the redelegation
	require.True(t, ctx.BlockTime().Before(redelegationTime.Add(unbondingTime)))
	valA := tstaking.CheckValidator(valAddrA, stakingtypes.Bonded, false)
	consA, err := valA.GetConsAddr()
	require.NoError(t, err)
	fraction := math.LegacyNewDecWithPrec(5, 2)

	// The rebalance flag is clear before the slash
	require.False(t, app.AllianceKeeper.ConsumeAssetRebalanceEvent(ctx))
	unbondingsBefore, err := app.AllianceKeeper.GetUnbondings(ctx, AllianceDenom, user, valAddrA)
	require.NoError(t, err)
	require.Len(t, unbondingsBefore, 1)
	require.Equal(t, math.NewInt(2_000_000), unbondingsBefore[0].Amount)

	// 1. The callback itself, as x/staking calls it (on a branch of the state)
	cacheCtx, _ := ctx.CacheContext()
	hookErr := app.StakingKeeper.Hooks().BeforeValidatorSlashed(cacheCtx, valAddrA, fraction)
	if hookErr != nil {
		t.Errorf("C08 violated: BeforeValidatorSlashed returned an error: %v", hookErr)
	}

	// 2. The real slash through x/slashing -> x/staking (which only logs the hook error)
	power := valA.GetConsensusPower(app.StakingKeeper.PowerReduction(ctx))
	require.NoError(t, app.SlashingKeeper.Slash(ctx, consA, fraction, power, ctx.BlockHeight()-1))

	unbondingsAfter, err := app.AllianceKeeper.GetUnbondings(ctx, AllianceDenom, user, valAddrA)
	require.NoError(t, err)
	require.Len(t, unbondingsAfter, 1)
	if !unbondingsAfter[0].Amount.Equal(math.NewInt(1_900_000)) {
		t.Errorf("C08 violated: pending unbonding on the slashed validator was not slashed: have %s, want 1900000", unbondingsAfter[0].Amount)
	}
	if !app.AllianceKeeper.ConsumeAssetRebalanceEvent(ctx) {
		t.Errorf("C08 violated: no rebalance was scheduled by the slash callback")
	}
}
