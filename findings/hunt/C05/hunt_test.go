package tests_test

import (
	"errors"
	"fmt"
	mrand "math/rand"
	"testing"
	"time"

	"cosmossdk.io/math"

	test_helpers "github.com/terra-money/alliance/app"
	"github.com/terra-money/alliance/x/alliance/keeper"
	"github.com/terra-money/alliance/x/alliance/types"

	sdk "github.com/cosmos/cosmos-sdk/types"
	teststaking "github.com/cosmos/cosmos-sdk/x/staking/testutil"
	stakingtypes "github.com/cosmos/cosmos-sdk/x/staking/types"
	"github.com/stretchr/testify/require"
)

// C05: every delegator with a positive reported balance can claim rewards and undelegate that
// full balance without error.
//
// Scenario: user redelegates val1 -> val2 (he is the only delegator of the denom on val2),
// undelegates most of the new position, then val1 is slashed 5% (double sign) while the
// redelegation is still immature. slashRedelegations takes "all that is left" of the position on
// val2 and stores the delegation with Shares == 0 (it is not deleted) and removes the denom from
// val2.TotalDelegatorShares, but val2.ValidatorShares keeps the tokens. From then on the
// delegation query reports a positive balance for the zero-share delegation
// (ConvertNewShareToDecToken returns all the validator's tokens when totalShares == 0), and
// MsgUndelegate of that reported balance fails with ErrInsufficientShares.
func TestHuntZeroShareDelegationAfterRedelegationSlash(t *testing.T) {
	var err error
	app, ctx := createTestContext(t)
	startTime := time.Now()
	ctx = ctx.WithBlockTime(startTime).WithBlockHeight(1)
	app.AllianceKeeper.InitGenesis(ctx, &types.GenesisState{
		Params: types.DefaultParams(),
		Assets: []types.AllianceAsset{
			{
				Denom:                AllianceDenom,
				RewardWeight:         math.LegacyNewDec(2),
				TakeRate:             math.LegacyNewDec(0),
				TotalTokens:          math.ZeroInt(),
				TotalValidatorShares: math.LegacyZeroDec(),
				RewardChangeRate:     math.LegacyOneDec(),
			},
		},
	})
	msgServer := keeper.NewMsgServerImpl(app.AllianceKeeper)
	queryServer := keeper.NewQueryServerImpl(app.AllianceKeeper)

	addrs := test_helpers.AddTestAddrsIncremental(app, ctx, 4, sdk.NewCoins(
		sdk.NewCoin(AllianceDenom, math.NewInt(200_000_000)),
	))
	pks := test_helpers.CreateTestPubKeys(2)

	valAddr1 := sdk.ValAddress(addrs[0])
	_val1 := teststaking.NewValidator(t, valAddr1, pks[0])
	_val1.Commission = stakingtypes.Commission{
		CommissionRates: stakingtypes.CommissionRates{
			Rate:          math.LegacyNewDec(0),
			MaxRate:       math.LegacyNewDec(0),
			MaxChangeRate: math.LegacyNewDec(0),
		},
		UpdateTime: time.Now(),
	}
	test_helpers.RegisterNewValidator(t, app, ctx, _val1)

	valAddr2 := sdk.ValAddress(addrs[1])
	_val2 := teststaking.NewValidator(t, valAddr2, pks[1])
	_val2.Commission = stakingtypes.Commission{
		CommissionRates: stakingtypes.CommissionRates{
			Rate:          math.LegacyNewDec(0),
			MaxRate:       math.LegacyNewDec(0),
			MaxChangeRate: math.LegacyNewDec(0),
		},
		UpdateTime: time.Now(),
	}
	test_helpers.RegisterNewValidator(t, app, ctx, _val2)

	user1 := addrs[2]
	user2 := addrs[3]

	// user1 and user2 stake on val1
	_, err = msgServer.Delegate(ctx, types.NewMsgDelegate(user1.String(), valAddr1.String(), sdk.NewCoin(AllianceDenom, math.NewInt(100_000_000))))
	require.NoError(t, err)
	_, err = msgServer.Delegate(ctx, types.NewMsgDelegate(user2.String(), valAddr1.String(), sdk.NewCoin(AllianceDenom, math.NewInt(100_000_000))))
	require.NoError(t, err)
	assets := app.AllianceKeeper.GetAllAssets(ctx)
	require.NoError(t, app.AllianceKeeper.RebalanceBondTokenWeights(ctx, assets))

	// user1 moves his position to val2 (nobody else holds the denom on val2)
	ctx = ctx.WithBlockTime(ctx.BlockTime().Add(time.Minute)).WithBlockHeight(2)
	_, err = msgServer.Redelegate(ctx, types.NewMsgRedelegate(user1.String(), valAddr1.String(), valAddr2.String(), sdk.NewCoin(AllianceDenom, math.NewInt(100_000_000))))
	require.NoError(t, err)
	assets = app.AllianceKeeper.GetAllAssets(ctx)
	require.NoError(t, app.AllianceKeeper.RebalanceBondTokenWeights(ctx, assets))

	// ... and undelegates 99% of it
	ctx = ctx.WithBlockTime(ctx.BlockTime().Add(time.Minute)).WithBlockHeight(3)
	_, err = msgServer.Undelegate(ctx, types.NewMsgUndelegate(user1.String(), valAddr2.String(), sdk.NewCoin(AllianceDenom, math.NewInt(99_000_000))))
	require.NoError(t, err)
	assets = app.AllianceKeeper.GetAllAssets(ctx)
	require.NoError(t, app.AllianceKeeper.RebalanceBondTokenWeights(ctx, assets))

	res, err := queryServer.AllianceDelegation(ctx, &types.QueryAllianceDelegationRequest{
		DelegatorAddr: user1.String(), ValidatorAddr: valAddr2.String(), Denom: AllianceDenom,
	})
	require.NoError(t, err)
	require.Equal(t, math.NewInt(1_000_000), res.Delegation.Balance.Amount)

	// val1 is slashed for a double sign (5%) while the redelegation is immature, x/staking calls the hook
	ctx = ctx.WithBlockTime(ctx.BlockTime().Add(time.Minute)).WithBlockHeight(4)
	val1, err := app.AllianceKeeper.GetAllianceValidator(ctx, valAddr1)
	require.NoError(t, err)
	valPower1 := val1.GetConsensusPower(app.StakingKeeper.PowerReduction(ctx))
	valConAddr1, _ := val1.GetConsAddr()
	slashFraction, err := app.SlashingKeeper.SlashFractionDoubleSign(ctx)
	require.NoError(t, err)
	err = app.SlashingKeeper.Slash(ctx, valConAddr1, slashFraction, valPower1, 1)
	require.NoError(t, err)
	assets = app.AllianceKeeper.GetAllAssets(ctx)
	require.NoError(t, app.AllianceKeeper.RebalanceBondTokenWeights(ctx, assets))

	ctx = ctx.WithBlockTime(ctx.BlockTime().Add(time.Minute)).WithBlockHeight(5)
	d, found := app.AllianceKeeper.GetDelegation(ctx, user1, valAddr2, AllianceDenom)
	t.Logf("delegation after slash: found=%v shares=%s", found, d.Shares)
	val2, err := app.AllianceKeeper.GetAllianceValidator(ctx, valAddr2)
	require.NoError(t, err)
	t.Logf("val2 TotalDelegatorShares=%s ValidatorShares=%s", sdk.DecCoins(val2.TotalDelegatorShares), sdk.DecCoins(val2.ValidatorShares))

	// What the chain reports to user1
	res, err = queryServer.AllianceDelegation(ctx, &types.QueryAllianceDelegationRequest{
		DelegatorAddr: user1.String(), ValidatorAddr: valAddr2.String(), Denom: AllianceDenom,
	})
	require.NoError(t, err)
	balance := res.Delegation.Balance
	t.Logf("reported balance of user1 on val2: %s", balance)

	if !balance.Amount.IsPositive() {
		t.Skip("no positive balance reported, clause does not apply")
	}

	// C05: a delegator with a positive reported balance can claim ...
	_, err = msgServer.ClaimDelegationRewards(ctx, types.NewMsgClaimDelegationRewards(user1.String(), valAddr2.String(), AllianceDenom))
	require.NoError(t, err, "claim of a delegator with positive reported balance %s failed", balance)

	// ... and undelegate that full balance without error
	_, err = msgServer.Undelegate(ctx, types.NewMsgUndelegate(user1.String(), valAddr2.String(), balance))
	require.NoError(t, err, "undelegating the full reported balance %s failed", balance)
}

// Randomised search: after every operation every delegation with a positive reported balance must be
// able to claim and to undelegate the full reported balance (checked on a cache context).
func TestHuntFuzzFullExit(t *testing.T) {
	for seed := int64(1); seed <= 30; seed++ {
		if huntFuzzOnce(t, seed) {
			return
		}
	}
}

func huntFuzzOnce(t *testing.T, seed int64) (failed bool) {
	app, ctx := createTestContext(t)
	startTime := time.Now()
	ctx = ctx.WithBlockTime(startTime).WithBlockHeight(1)
	app.AllianceKeeper.InitGenesis(ctx, &types.GenesisState{
		Params: types.Params{RewardDelayTime: time.Second, TakeRateClaimInterval: time.Minute, LastTakeRateClaimTime: startTime},
		Assets: []types.AllianceAsset{
			{Denom: AllianceDenom, RewardWeight: math.LegacyNewDec(2), TakeRate: math.LegacyMustNewDecFromStr("0.0003"), TotalTokens: math.ZeroInt(), TotalValidatorShares: math.LegacyZeroDec(), RewardChangeRate: math.LegacyOneDec()},
			{Denom: AllianceDenomTwo, RewardWeight: math.LegacyNewDec(1), TakeRate: math.LegacyZeroDec(), TotalTokens: math.ZeroInt(), TotalValidatorShares: math.LegacyZeroDec(), RewardChangeRate: math.LegacyOneDec()},
		},
	})
	msgServer := keeper.NewMsgServerImpl(app.AllianceKeeper)
	queryServer := keeper.NewQueryServerImpl(app.AllianceKeeper)
	addrs := test_helpers.AddTestAddrsIncremental(app, ctx, 7, sdk.NewCoins(
		sdk.NewCoin(AllianceDenom, math.NewInt(1_000_000_000)),
		sdk.NewCoin(AllianceDenomTwo, math.NewInt(1_000_000_000)),
	))
	pks := test_helpers.CreateTestPubKeys(3)
	var vals []sdk.ValAddress
	for i := 0; i < 3; i++ {
		va := sdk.ValAddress(addrs[i])
		v := teststaking.NewValidator(t, va, pks[i])
		v.Commission = stakingtypes.Commission{CommissionRates: stakingtypes.CommissionRates{Rate: math.LegacyZeroDec(), MaxRate: math.LegacyZeroDec(), MaxChangeRate: math.LegacyZeroDec()}, UpdateTime: time.Now()}
		test_helpers.RegisterNewValidator(t, app, ctx, v)
		vals = append(vals, va)
	}
	users := addrs[3:]
	denoms := []string{AllianceDenom, AllianceDenomTwo}
	rnd := newHuntRand(seed)
	var log []string

	check := func() bool {
		for _, u := range users {
			for _, v := range vals {
				for _, dn := range denoms {
					res, err := queryServer.AllianceDelegation(ctx, &types.QueryAllianceDelegationRequest{DelegatorAddr: u.String(), ValidatorAddr: v.String(), Denom: dn})
					if err != nil || !res.Delegation.Balance.Amount.IsPositive() {
						continue
					}
					if res.Delegation.Delegation.Shares.IsZero() {
						continue // the zero-share case is reported separately
					}
					bal := res.Delegation.Balance
					cctx, _ := ctx.CacheContext()
					var cerr error
					func() {
						defer func() {
							if r := recover(); r != nil {
								cerr = fmt.Errorf("panic: %v", r)
							}
						}()
						_, cerr = msgServer.ClaimDelegationRewards(cctx, types.NewMsgClaimDelegationRewards(u.String(), v.String(), dn))
						if cerr != nil {
							cerr = fmt.Errorf("claim: %w", cerr)
							return
						}
						_, cerr = msgServer.Undelegate(cctx, types.NewMsgUndelegate(u.String(), v.String(), bal))
					}()
					if cerr != nil {
						for _, l := range log {
							t.Log(l)
						}
						val, _ := app.AllianceKeeper.GetAllianceValidator(ctx, v)
						asset, _ := app.AllianceKeeper.GetAssetByDenom(ctx, dn)
						t.Logf("seed %d: user %s val %s balance %s shares %s: %v", seed, u, v, bal, res.Delegation.Delegation.Shares, cerr)
						t.Logf("val delShares=%s valShares=%s asset tokens=%s shares=%s", sdk.DecCoins(val.TotalDelegatorShares), sdk.DecCoins(val.ValidatorShares), asset.TotalTokens, asset.TotalValidatorShares)
						t.Fail()
						return true
					}
				}
			}
		}
		return false
	}

	for step := 0; step < 120; step++ {
		ctx = ctx.WithBlockTime(ctx.BlockTime().Add(90 * time.Second)).WithBlockHeight(ctx.BlockHeight() + 1)
		u := users[rnd.Intn(len(users))]
		v := vals[rnd.Intn(len(vals))]
		dn := denoms[rnd.Intn(len(denoms))]
		var err error
		func() {
			defer func() {
				if r := recover(); r != nil {
					err = fmt.Errorf("panic: %v", r)
				}
			}()
			switch op := rnd.Intn(10); {
			case op < 4:
				amt := math.NewInt(int64(1 + rnd.Intn([]int{5000, 30, 300}[seed%3])))
				log = append(log, fmt.Sprintf("%d delegate %s %s %s", step, u, v, amt))
				_, err = msgServer.Delegate(ctx, types.NewMsgDelegate(u.String(), v.String(), sdk.NewCoin(dn, amt)))
			case op < 6:
				res, _ := queryServer.AllianceDelegation(ctx, &types.QueryAllianceDelegationRequest{DelegatorAddr: u.String(), ValidatorAddr: v.String(), Denom: dn})
				if res == nil || !res.Delegation.Balance.Amount.GT(math.OneInt()) {
					return
				}
				amt := math.NewInt(1 + rnd.Int63n(res.Delegation.Balance.Amount.Int64()-1))
				log = append(log, fmt.Sprintf("%d undelegate %s %s %s", step, u, v, amt))
				_, err = msgServer.Undelegate(ctx, types.NewMsgUndelegate(u.String(), v.String(), sdk.NewCoin(dn, amt)))
			case op < 8:
				res, _ := queryServer.AllianceDelegation(ctx, &types.QueryAllianceDelegationRequest{DelegatorAddr: u.String(), ValidatorAddr: v.String(), Denom: dn})
				if res == nil || !res.Delegation.Balance.Amount.GT(math.OneInt()) {
					return
				}
				v2 := vals[rnd.Intn(len(vals))]
				if v2.Equals(v) {
					return
				}
				amt := math.NewInt(1 + rnd.Int63n(res.Delegation.Balance.Amount.Int64()-1))
				log = append(log, fmt.Sprintf("%d redelegate %s %s->%s %s", step, u, v, v2, amt))
				_, err = msgServer.Redelegate(ctx, types.NewMsgRedelegate(u.String(), v.String(), v2.String(), sdk.NewCoin(dn, amt)))
				if err != nil && errors.Is(err, stakingtypes.ErrTransitiveRedelegation) {
					err = nil
				}
			default:
				fr := []string{"0.01", "0.05", "0.0001", "0.5", "0.33"}[rnd.Intn(5)]
				log = append(log, fmt.Sprintf("%d slash %s %s", step, v, fr))
				err = app.AllianceKeeper.StakingHooks().BeforeValidatorSlashed(ctx, v, math.LegacyMustNewDecFromStr(fr))
			}
		}()
		if err != nil {
			log = append(log, fmt.Sprintf("   op error: %v", err))
			t.Logf("seed %d step %d: %s -> op error: %v", seed, step, log[len(log)-2], err)
		}
		// end blocker parts that matter here
		assets := app.AllianceKeeper.GetAllAssets(ctx)
		_, derr := app.AllianceKeeper.DeductAssetsHook(ctx, assets)
		require.NoError(t, derr)
		app.AllianceKeeper.CompleteRedelegations(ctx)
		if a, ok := app.AllianceKeeper.GetAssetByDenom(ctx, AllianceDenom); ok && a.TotalTokens.IsPositive() {
			log = append(log, fmt.Sprintf("   asset tokens=%s valshares=%s ratio=%s", a.TotalTokens, a.TotalValidatorShares, a.TotalValidatorShares.QuoInt(a.TotalTokens)))
		}
		if check() {
			return true
		}
	}
	return false
}

type huntRand struct{ *mrand.Rand }

func newHuntRand(seed int64) huntRand { return huntRand{mrand.New(mrand.NewSource(seed))} }
