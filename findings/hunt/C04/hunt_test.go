package tests_test

import (
	"fmt"
	"math/rand"
	"os"
	"strconv"
	"strings"
	"testing"
	"time"

	"cosmossdk.io/math"
	sdk "github.com/cosmos/cosmos-sdk/types"
	teststaking "github.com/cosmos/cosmos-sdk/x/staking/testutil"
	"github.com/stretchr/testify/assert"
	"github.com/stretchr/testify/require"

	test_helpers "github.com/terra-money/alliance/app"
	"github.com/terra-money/alliance/x/alliance"
	"github.com/terra-money/alliance/x/alliance/keeper"
	"github.com/terra-money/alliance/x/alliance/types"
)

type huntEnv struct {
	t     *testing.T
	app   *test_helpers.App
	ctx   sdk.Context
	ms    types.MsgServer
	vals  []sdk.ValAddress
	users []sdk.AccAddress
	denom []string
}

func newHuntEnv(t *testing.T, nVals, nUsers int, takeRate string, funds math.Int) *huntEnv {
	app, ctx := createTestContext(t)
	start := time.Now().UTC()
	ctx = ctx.WithBlockTime(start).WithBlockHeight(1)
	params := types.DefaultParams()
	params.LastTakeRateClaimTime = start
	app.AllianceKeeper.InitGenesis(ctx, &types.GenesisState{
		Params: params,
		Assets: []types.AllianceAsset{
			types.NewAllianceAsset(AllianceDenom, math.LegacyNewDec(2), math.LegacyZeroDec(), math.LegacyNewDec(5), math.LegacyMustNewDecFromStr(takeRate), start),
			types.NewAllianceAsset(AllianceDenomTwo, math.LegacyNewDec(1), math.LegacyZeroDec(), math.LegacyNewDec(5), math.LegacyZeroDec(), start),
		},
	})
	addrs := test_helpers.AddTestAddrsIncremental(app, ctx, nVals+nUsers, sdk.NewCoins(
		sdk.NewCoin(AllianceDenom, funds),
		sdk.NewCoin(AllianceDenomTwo, funds),
	))
	pks := test_helpers.CreateTestPubKeys(nVals)
	e := &huntEnv{t: t, app: app, ctx: ctx, ms: keeper.NewMsgServerImpl(app.AllianceKeeper), denom: []string{AllianceDenom, AllianceDenomTwo}}
	for i := 0; i < nVals; i++ {
		va := sdk.ValAddress(addrs[i])
		v := teststaking.NewValidator(t, va, pks[i])
		test_helpers.RegisterNewValidator(t, app, ctx, v)
		e.vals = append(e.vals, va)
	}
	e.users = addrs[nVals:]
	return e
}

// exact (untruncated) redeemable value of a position
func (e *huntEnv) value(u sdk.AccAddress, v sdk.ValAddress, denom string) math.LegacyDec {
	k := e.app.AllianceKeeper
	del, found := k.GetDelegation(e.ctx, u, v, denom)
	if !found {
		return math.LegacyZeroDec()
	}
	asset, _ := k.GetAssetByDenom(e.ctx, denom)
	val, err := k.GetAllianceValidator(e.ctx, v)
	require.NoError(e.t, err)
	if del.Shares.IsZero() {
		return math.LegacyZeroDec()
	}
	valTokens := val.TotalTokensWithAsset(asset)
	return types.ConvertNewShareToDecToken(valTokens, val.TotalDelegationSharesWithDenom(denom), del.Shares)
}

func (e *huntEnv) valState(v sdk.ValAddress, denom string) string {
	k := e.app.AllianceKeeper
	asset, _ := k.GetAssetByDenom(e.ctx, denom)
	val, _ := k.GetAllianceValidator(e.ctx, v)
	return fmt.Sprintf("valShares %s delShares %s valTokens %s | asset tokens %s shares %s", val.ValidatorSharesWithDenom(denom), val.TotalDelegationSharesWithDenom(denom), val.TotalTokensWithAsset(asset), asset.TotalTokens, asset.TotalValidatorShares)
}

func (e *huntEnv) snapshot() map[string]math.LegacyDec {
	m := map[string]math.LegacyDec{}
	for ui, u := range e.users {
		for vi, v := range e.vals {
			for _, d := range e.denom {
				m[fmt.Sprintf("u%d/v%d/%s", ui, vi, d)] = e.value(u, v, d)
			}
		}
	}
	return m
}

func (e *huntEnv) nextBlock(d time.Duration) {
	e.ctx = e.ctx.WithBlockTime(e.ctx.BlockTime().Add(d)).WithBlockHeight(e.ctx.BlockHeight() + 1)
	require.NoError(e.t, alliance.EndBlocker(e.ctx, e.app.AllianceKeeper))
}

// compare returns a description of the first violation
func compare(before, after map[string]math.LegacyDec, expected map[string]math.LegacyDec, tol math.LegacyDec) string {
	for k, b := range before {
		a := after[k]
		exp := math.LegacyZeroDec()
		if x, ok := expected[k]; ok {
			exp = x
		}
		diff := a.Sub(b).Sub(exp)
		// relative error of 18 digit arithmetic
		rel := b.Abs().Add(a.Abs()).Mul(math.LegacyNewDecWithPrec(1, 12))
		if diff.Abs().GT(tol.Add(rel)) {
			return fmt.Sprintf("%s: before %s after %s expected change %s (off by %s)", k, b, a, exp, diff)
		}
	}
	return ""
}

func TestHuntFuzz(t *testing.T) { huntFuzz(t, false) }
func TestHuntFuzzSlash(t *testing.T) {
	if os.Getenv("HUNT_SLASH") == "" {
		t.Skip("exploration harness with random slashes (mixes known finding K7 with the new one), set HUNT_SLASH=1 to run")
	}
	huntFuzz(t, true)
}

func safely(f func() error) (err error) {
	defer func() {
		if r := recover(); r != nil {
			err = fmt.Errorf("panic: %v", r)
		}
	}()
	return f()
}

func huntFuzz(t *testing.T, withSlash bool) {
	for seed := huntFirst; seed <= huntSeeds; seed++ {
		seed := seed
		t.Run(fmt.Sprintf("seed%d", seed), func(t *testing.T) {
			r := rand.New(rand.NewSource(seed))
			takeRates := []string{"0", "0.5", "0.1", "0.000001"}
			e := newHuntEnv(t, 3, 4, takeRates[r.Intn(len(takeRates))], math.NewInt(1_000_000_000))
			small := r.Intn(2) == 0
			amt := func() math.Int {
				if small {
					return math.NewInt(int64(1 + r.Intn(7)))
				}
				switch r.Intn(3) {
				case 0:
					return math.NewInt(int64(1 + r.Intn(5)))
				case 1:
					return math.NewInt(int64(1 + r.Intn(1000)))
				}
				return math.NewInt(int64(1 + r.Intn(100_000_000)))
			}
			tol := math.LegacyNewDec(1).Add(math.LegacyNewDecWithPrec(2, 2))
			oks, fails := 0, 0
			defer func() { t.Logf("ok %d failed %d", oks, fails) }()
			for step := 0; step < 400; step++ {
				ui := r.Intn(len(e.users))
				vi := r.Intn(len(e.vals))
				d := e.denom[r.Intn(2)]
				u, v := e.users[ui], e.vals[vi]
				key := fmt.Sprintf("u%d/v%d/%s", ui, vi, d)
				before := e.snapshot()
				pre := e.valState(v, d)
				var desc string
				var err error
				cctx, write := e.ctx.CacheContext()
				expected := map[string]math.LegacyDec{}
				switch op := r.Intn(10); {
				case op < 3:
					a := amt()
					desc = fmt.Sprintf("delegate %s %s", key, a)
					err = safely(func() error {
						_, err := e.ms.Delegate(cctx, &types.MsgDelegate{DelegatorAddress: u.String(), ValidatorAddress: v.String(), Amount: sdk.NewCoin(d, a)})
						return err
					})
					expected[key] = math.LegacyNewDecFromInt(a)
				case op < 6:
					a := amt()
					cur := before[key].TruncateInt()
					if r.Intn(2) == 0 && cur.IsPositive() {
						// everything that is reported
						res, _ := keeper.NewQueryServerImpl(e.app.AllianceKeeper).AllianceDelegation(e.ctx, &types.QueryAllianceDelegationRequest{DelegatorAddr: u.String(), ValidatorAddr: v.String(), Denom: d})
						a = res.Delegation.Balance.Amount
						if r.Intn(3) == 0 && a.GT(math.OneInt()) {
							a = a.SubRaw(1)
						}
					}
					if !a.IsPositive() {
						continue
					}
					desc = fmt.Sprintf("undelegate %s %s", key, a)
					err = safely(func() error {
						_, err := e.ms.Undelegate(cctx, &types.MsgUndelegate{DelegatorAddress: u.String(), ValidatorAddress: v.String(), Amount: sdk.NewCoin(d, a)})
						return err
					})
					expected[key] = math.LegacyNewDecFromInt(a).Neg()
				case op < 8:
					if os.Getenv("HUNT_NOREDEL") != "" {
						continue
					}
					a := amt()
					if r.Intn(2) == 0 {
						res, _ := keeper.NewQueryServerImpl(e.app.AllianceKeeper).AllianceDelegation(e.ctx, &types.QueryAllianceDelegationRequest{DelegatorAddr: u.String(), ValidatorAddr: v.String(), Denom: d})
						a = res.Delegation.Balance.Amount
					}
					if !a.IsPositive() {
						continue
					}
					v2i := (vi + 1 + r.Intn(len(e.vals)-1)) % len(e.vals)
					key2 := fmt.Sprintf("u%d/v%d/%s", ui, v2i, d)
					desc = fmt.Sprintf("redelegate %s -> %s %s", key, key2, a)
					err = safely(func() error {
						_, err := e.ms.Redelegate(cctx, &types.MsgRedelegate{DelegatorAddress: u.String(), ValidatorSrcAddress: v.String(), ValidatorDstAddress: e.vals[v2i].String(), Amount: sdk.NewCoin(d, a)})
						return err
					})
					expected[key] = math.LegacyNewDecFromInt(a).Neg()
					expected[key2] = math.LegacyNewDecFromInt(a)
				case op < 9:
					desc = fmt.Sprintf("claim %s", key)
					err = safely(func() error {
						_, err := e.ms.ClaimDelegationRewards(cctx, &types.MsgClaimDelegationRewards{DelegatorAddress: u.String(), ValidatorAddress: v.String(), Denom: d})
						return err
					})
				case withSlash && r.Intn(4) == 0:
					fr := []string{"0.05", "0.5", "0.0001", "0.9"}[r.Intn(4)]
					if os.Getenv("HUNT_REALISTIC") != "" {
						fr = []string{"0.05", "0.0001"}[r.Intn(2)]
					}
					sctx, swrite := e.ctx.CacheContext()
					if err := safely(func() error {
						return e.app.AllianceKeeper.StakingHooks().BeforeValidatorSlashed(sctx, v, math.LegacyMustNewDecFromStr(fr))
					}); err == nil {
						swrite()
						t.Logf("step %d slash v%d %s", step, vi, fr)
					}
					continue
				default:
					e.nextBlock(time.Duration(1+r.Intn(600)) * time.Second)
					if r.Intn(10) == 0 {
						e.nextBlock(22 * 24 * time.Hour)
					}
					continue
				}
				if err != nil {
					fails++
					if strings.HasPrefix(err.Error(), "panic") {
						t.Logf("PANIC seed %d step %d %s: %v | %s", seed, step, desc, err, pre)
					}
					continue
				}
				oks++
				write()
				after := e.snapshot()
				if msg := compare(before, after, expected, tol); msg != "" {
					t.Fatalf("seed %d step %d: %s\n  %s\n  validator before: %s", seed, step, desc, msg, pre)
				}
			}
		})
	}
}

var huntSeeds = int64(30)
var huntFirst = int64(1)

func init() {
	if v := os.Getenv("HUNT_SEEDS"); v != "" {
		n, _ := strconv.Atoi(v)
		huntSeeds = int64(n)
	}
	if v := os.Getenv("HUNT_FIRST"); v != "" {
		n, _ := strconv.Atoi(v)
		huntFirst = int64(n)
	}
}

// C04: "A successful delegation ... changes the acting delegator's redeemable token value by exactly the
// requested amount ... a delegate-then-undelegate round trip never returns more than was put in".
//
// Scenario (all through the msg server, the end blocker and the real x/slashing -> x/staking -> hook path):
//  1. A and B delegate to validator V1, A redelegates everything to V2 (A is the only delegator of V2)
//  2. A undelegates 98% from V2
//  3. V1 double signs and is slashed by 5%: the redelegation A -> V2 is slashed. The position holds less than the
//     5% of the redelegated balance, so all delegation shares of A on V2 are removed - but the validator shares of V2
//     (and the asset's tokens) stay. V2 now carries tokens that belong to no delegation share.
//  4. C delegates ONE base unit to V2 and owns everything that was "slashed" from A.
func TestHuntDelegateCapturesSlashedRedelegation(t *testing.T) { huntCapture(t, 2) }

// Same scenario, but the slashed delegator A himself delegates one base unit afterwards and gets back
// everything that the slash of his redelegation removed.
func TestHuntSlashedDelegatorRecoversStakeWithOneUnit(t *testing.T) { huntCapture(t, 0) }

func huntCapture(t *testing.T, actor int) {
	e := newHuntEnv(t, 2, 3, "0", math.NewInt(1_000_000_000))
	qs := keeper.NewQueryServerImpl(e.app.AllianceKeeper)
	A, B, C := e.users[0], e.users[1], e.users[actor]
	V1, V2 := e.vals[0], e.vals[1]
	coin := func(n int64) sdk.Coin { return sdk.NewCoin(AllianceDenom, math.NewInt(n)) }
	reported := func(u sdk.AccAddress, v sdk.ValAddress) math.Int {
		res, err := qs.AllianceDelegation(e.ctx, &types.QueryAllianceDelegationRequest{DelegatorAddr: u.String(), ValidatorAddr: v.String(), Denom: AllianceDenom})
		require.NoError(t, err)
		return res.Delegation.Balance.Amount
	}

	_, err := e.ms.Delegate(e.ctx, &types.MsgDelegate{DelegatorAddress: A.String(), ValidatorAddress: V1.String(), Amount: coin(100_000_000)})
	require.NoError(t, err)
	_, err = e.ms.Delegate(e.ctx, &types.MsgDelegate{DelegatorAddress: B.String(), ValidatorAddress: V1.String(), Amount: coin(100_000_000)})
	require.NoError(t, err)
	e.nextBlock(5 * time.Second) // rebalance: the module stakes on V1

	_, err = e.ms.Redelegate(e.ctx, &types.MsgRedelegate{DelegatorAddress: A.String(), ValidatorSrcAddress: V1.String(), ValidatorDstAddress: V2.String(), Amount: coin(100_000_000)})
	require.NoError(t, err)
	e.nextBlock(5 * time.Second)
	_, err = e.ms.Undelegate(e.ctx, &types.MsgUndelegate{DelegatorAddress: A.String(), ValidatorAddress: V2.String(), Amount: coin(98_000_000)})
	require.NoError(t, err)
	e.nextBlock(5 * time.Second)
	require.Equal(t, math.NewInt(2_000_000), reported(A, V2))

	// V1 double signs: x/slashing -> x/staking Slash -> BeforeValidatorSlashed hook of x/alliance
	val1, err := e.app.AllianceKeeper.GetAllianceValidator(e.ctx, V1)
	require.NoError(t, err)
	power := val1.GetConsensusPower(e.app.StakingKeeper.PowerReduction(e.ctx))
	require.Positive(t, power)
	consAddr, err := val1.GetConsAddr()
	require.NoError(t, err)
	fraction, err := e.app.SlashingKeeper.SlashFractionDoubleSign(e.ctx)
	require.NoError(t, err)
	require.Equal(t, "0.050000000000000000", fraction.String())
	require.NoError(t, e.app.SlashingKeeper.Slash(e.ctx, consAddr, fraction, power, 1))
	e.nextBlock(5 * time.Second)

	delA, found := e.app.AllianceKeeper.GetDelegation(e.ctx, A, V2, AllianceDenom)
	require.True(t, found)
	t.Logf("after the slash: A's shares on V2 = %s, V2: %s", delA.Shares, e.valState(V2, AllianceDenom))

	// C delegates one base unit to V2
	balBefore := e.app.BankKeeper.GetBalance(e.ctx, C, AllianceDenom).Amount
	if actor == 0 {
		// A's own undelegation of 98_000_000 from V2 matures in the same block as the round trip below
		balBefore = balBefore.AddRaw(98_000_000)
	}
	if actor != 0 {
		require.True(t, reported(C, V2).IsZero())
	}
	_, err = e.ms.Delegate(e.ctx, &types.MsgDelegate{DelegatorAddress: C.String(), ValidatorAddress: V2.String(), Amount: coin(1)})
	require.NoError(t, err)
	valueC := reported(C, V2)
	t.Logf("C delegated 1, reported redeemable value of C on V2: %s (exact %s)", valueC, e.value(C, V2, AllianceDenom))

	// ... and takes it out again
	_, err = e.ms.Undelegate(e.ctx, &types.MsgUndelegate{DelegatorAddress: C.String(), ValidatorAddress: V2.String(), Amount: sdk.NewCoin(AllianceDenom, valueC)})
	require.NoError(t, err)
	unbondingTime, err := e.app.StakingKeeper.UnbondingTime(e.ctx)
	require.NoError(t, err)
	e.nextBlock(unbondingTime + time.Second)
	balAfter := e.app.BankKeeper.GetBalance(e.ctx, C, AllianceDenom).Amount
	t.Logf("C's bank balance changed by %s through a delegate(1) / undelegate round trip", balAfter.Sub(balBefore))

	// the clause: the delegation of 1 changes C's value by exactly 1 (tolerance one base unit)
	assert.True(t, valueC.LTE(math.NewInt(2)), "C delegated 1 base unit and its position is worth %s", valueC)
	// the clause: a round trip never returns more than was put in
	require.True(t, balAfter.LTE(balBefore), "round trip returned %s more than was put in", balAfter.Sub(balBefore))
}
