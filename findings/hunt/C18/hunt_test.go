package tests_test

import (
	"bytes"
	"fmt"
	"sort"
	"testing"
	"time"

	"cosmossdk.io/math"
	abcitypes "github.com/cometbft/cometbft/abci/types"
	sdk "github.com/cosmos/cosmos-sdk/types"
	authtypes "github.com/cosmos/cosmos-sdk/x/auth/types"
	minttypes "github.com/cosmos/cosmos-sdk/x/mint/types"
	teststaking "github.com/cosmos/cosmos-sdk/x/staking/testutil"
	"github.com/stretchr/testify/require"

	test_helpers "github.com/terra-money/alliance/app"
	"github.com/terra-money/alliance/x/alliance"
	"github.com/terra-money/alliance/x/alliance/keeper"
	"github.com/terra-money/alliance/x/alliance/types"
)

type huntKV struct {
	k, v []byte
}

func huntDumpStore(t *testing.T, app *test_helpers.App, ctx sdk.Context) []huntKV {
	store := app.AllianceKeeper.StoreService().OpenKVStore(ctx)
	iter, err := store.Iterator(nil, nil)
	require.NoError(t, err)
	defer iter.Close()
	var out []huntKV
	for ; iter.Valid(); iter.Next() {
		out = append(out, huntKV{append([]byte{}, iter.Key()...), append([]byte{}, iter.Value()...)})
	}
	return out
}

func huntWipeStore(t *testing.T, app *test_helpers.App, ctx sdk.Context) {
	store := app.AllianceKeeper.StoreService().OpenKVStore(ctx)
	for _, kv := range huntDumpStore(t, app, ctx) {
		require.NoError(t, store.Delete(kv.k))
	}
	require.Len(t, huntDumpStore(t, app, ctx), 0)
}

// huntReimport exports the module through the module's JSON genesis, wipes the module store and imports again
func huntReimport(t *testing.T, app *test_helpers.App, ctx sdk.Context) *types.GenesisState {
	am := alliance.NewAppModule(app.AppCodec(), app.AllianceKeeper, app.StakingKeeper, app.AccountKeeper, app.BankKeeper, app.InterfaceRegistry(), app.GetSubspace(types.ModuleName))
	raw := am.ExportGenesis(ctx, app.AppCodec())
	var gs types.GenesisState
	app.AppCodec().MustUnmarshalJSON(raw, &gs)
	huntWipeStore(t, app, ctx)
	am.InitGenesis(ctx, app.AppCodec(), raw)
	return &gs
}

func huntDiffStores(a, b []huntKV, skip ...byte) []string {
	am := map[string][]byte{}
	bm := map[string][]byte{}
	for _, kv := range a {
		am[string(kv.k)] = kv.v
	}
	for _, kv := range b {
		bm[string(kv.k)] = kv.v
	}
	var diffs []string
	isSkip := func(k string) bool {
		for _, s := range skip {
			if k[0] == s {
				return true
			}
		}
		return false
	}
	for k, v := range am {
		if isSkip(k) {
			continue
		}
		w, ok := bm[k]
		if !ok {
			diffs = append(diffs, fmt.Sprintf("missing after import: %x", k))
		} else if !bytes.Equal(v, w) {
			diffs = append(diffs, fmt.Sprintf("value differs: %x\n  %x\n  %x", k, v, w))
		}
	}
	for k := range bm {
		if isSkip(k) {
			continue
		}
		if _, ok := am[k]; !ok {
			diffs = append(diffs, fmt.Sprintf("extra after import: %x", k))
		}
	}
	sort.Strings(diffs)
	return diffs
}

func huntAllocate(t *testing.T, app *test_helpers.App, ctx sdk.Context, amount int64, vals ...sdk.ValAddress) {
	bondDenom, err := app.StakingKeeper.BondDenom(ctx)
	require.NoError(t, err)
	require.NoError(t, app.BankKeeper.MintCoins(ctx, minttypes.ModuleName, sdk.NewCoins(sdk.NewCoin(bondDenom, math.NewInt(amount)))))
	require.NoError(t, app.BankKeeper.SendCoinsFromModuleToModule(ctx, minttypes.ModuleName, authtypes.FeeCollectorName, sdk.NewCoins(sdk.NewCoin(bondDenom, math.NewInt(amount)))))
	var votes []abcitypes.VoteInfo
	total := int64(0)
	for _, va := range vals {
		v, err := app.StakingKeeper.GetValidator(ctx, va)
		require.NoError(t, err)
		cons, _ := v.GetConsAddr()
		p := v.GetConsensusPower(app.StakingKeeper.PowerReduction(ctx))
		if p == 0 {
			p = 1
		}
		total += p
		votes = append(votes, abcitypes.VoteInfo{Validator: abcitypes.Validator{Address: cons, Power: p}, BlockIdFlag: 2})
	}
	require.NoError(t, app.DistrKeeper.AllocateTokens(ctx, total, votes))
}

type huntEnv struct {
	app   *test_helpers.App
	ms    types.MsgServer
	vals  []sdk.ValAddress
	users []sdk.AccAddress
}

func huntNextBlock(t *testing.T, e *huntEnv, ctx sdk.Context, d time.Duration) sdk.Context {
	_, err := e.app.StakingKeeper.EndBlocker(ctx)
	require.NoError(t, err)
	require.NoError(t, alliance.EndBlocker(ctx, e.app.AllianceKeeper))
	ctx = ctx.WithBlockTime(ctx.BlockTime().Add(d)).WithBlockHeight(ctx.BlockHeight() + 1)
	huntAllocate(t, e.app, ctx, 1_000_000, e.vals...)
	return ctx
}

func huntSetup(t *testing.T) (*huntEnv, sdk.Context) {
	app, ctx := createTestContext(t)
	start := time.Date(2026, 1, 1, 0, 0, 0, 0, time.UTC)
	ctx = ctx.WithBlockTime(start).WithBlockHeight(1)
	app.AllianceKeeper.InitGenesis(ctx, &types.GenesisState{
		Params: types.Params{
			RewardDelayTime:       time.Hour,
			TakeRateClaimInterval: time.Minute * 5,
			LastTakeRateClaimTime: time.Time{},
		},
	})
	ms := keeper.NewMsgServerImpl(app.AllianceKeeper)
	auth := app.AllianceKeeper.GetAuthority()
	_, err := ms.CreateAlliance(ctx, &types.MsgCreateAlliance{
		Authority: auth, Denom: AllianceDenom, RewardWeight: math.LegacyMustNewDecFromStr("0.3"),
		RewardWeightRange: types.RewardWeightRange{Min: math.LegacyZeroDec(), Max: math.LegacyNewDec(5)},
		TakeRate:          math.LegacyMustNewDecFromStr("0.0001"), RewardChangeRate: math.LegacyMustNewDecFromStr("0.9"), RewardChangeInterval: time.Hour * 3,
	})
	require.NoError(t, err)
	_, err = ms.CreateAlliance(ctx, &types.MsgCreateAlliance{
		Authority: auth, Denom: AllianceDenomTwo, RewardWeight: math.LegacyMustNewDecFromStr("0.1"),
		RewardWeightRange: types.RewardWeightRange{Min: math.LegacyZeroDec(), Max: math.LegacyNewDec(5)},
		TakeRate:          math.LegacyZeroDec(), RewardChangeRate: math.LegacyOneDec(), RewardChangeInterval: 0,
	})
	require.NoError(t, err)

	dels, err := app.StakingKeeper.GetAllDelegations(ctx)
	require.NoError(t, err)
	val0, err := sdk.ValAddressFromBech32(dels[0].ValidatorAddress)
	require.NoError(t, err)
	addrs := test_helpers.AddTestAddrsIncremental(app, ctx, 6, sdk.NewCoins(
		sdk.NewCoin(AllianceDenom, math.NewInt(1_000_000_000)),
		sdk.NewCoin(AllianceDenomTwo, math.NewInt(1_000_000_000)),
	))
	pks := test_helpers.CreateTestPubKeys(2)
	vals := []sdk.ValAddress{val0}
	for i := 0; i < 2; i++ {
		va := sdk.ValAddress(addrs[i])
		v := teststaking.NewValidator(t, va, pks[i])
		test_helpers.RegisterNewValidator(t, app, ctx, v)
		vals = append(vals, va)
	}
	return &huntEnv{app: app, ms: ms, vals: vals, users: addrs[2:]}, ctx
}

func huntBuildState(t *testing.T) (*huntEnv, sdk.Context) {
	e, ctx := huntSetup(t)
	ms := e.ms
	u, v := e.users, e.vals
	del := func(ctx sdk.Context, d sdk.AccAddress, va sdk.ValAddress, denom string, amt int64) {
		_, err := ms.Delegate(ctx, &types.MsgDelegate{DelegatorAddress: d.String(), ValidatorAddress: va.String(), Amount: sdk.NewCoin(denom, math.NewInt(amt))})
		require.NoError(t, err)
	}
	redel := func(ctx sdk.Context, d sdk.AccAddress, s, dst sdk.ValAddress, denom string, amt int64) {
		_, err := ms.Redelegate(ctx, &types.MsgRedelegate{DelegatorAddress: d.String(), ValidatorSrcAddress: s.String(), ValidatorDstAddress: dst.String(), Amount: sdk.NewCoin(denom, math.NewInt(amt))})
		require.NoError(t, err)
	}
	undel := func(ctx sdk.Context, d sdk.AccAddress, va sdk.ValAddress, denom string, amt int64) {
		_, err := ms.Undelegate(ctx, &types.MsgUndelegate{DelegatorAddress: d.String(), ValidatorAddress: va.String(), Amount: sdk.NewCoin(denom, math.NewInt(amt))})
		require.NoError(t, err)
	}
	del(ctx, u[0], v[0], AllianceDenom, 10_000_000)
	del(ctx, u[0], v[1], AllianceDenom, 7_000_000)
	del(ctx, u[1], v[1], AllianceDenomTwo, 3_000_333)
	del(ctx, u[2], v[2], AllianceDenom, 999_999)
	del(ctx, u[2], v[2], AllianceDenomTwo, 5_000_000)
	ctx = huntNextBlock(t, e, ctx, time.Minute*30)
	del(ctx, u[3], v[0], AllianceDenomTwo, 123_456)
	ctx = huntNextBlock(t, e, ctx, time.Minute*31) // rewards started
	ctx = huntNextBlock(t, e, ctx, time.Minute*6)
	redel(ctx, u[0], v[0], v[2], AllianceDenom, 2_000_000)
	undel(ctx, u[0], v[1], AllianceDenom, 1_000_000)
	undel(ctx, u[0], v[0], AllianceDenom, 500_000)
	undel(ctx, u[2], v[2], AllianceDenomTwo, 500_000)
	undel(ctx, u[2], v[2], AllianceDenom, 100_000)
	ctx = huntNextBlock(t, e, ctx, time.Minute*6)
	// slash validator 2 (destination of a redelegation and owner of undelegations)
	require.NoError(t, e.app.StakingKeeper.Hooks().BeforeValidatorSlashed(ctx, v[2], math.LegacyMustNewDecFromStr("0.05")))
	// slash validator 0 (source of the redelegation)
	require.NoError(t, e.app.StakingKeeper.Hooks().BeforeValidatorSlashed(ctx, v[0], math.LegacyMustNewDecFromStr("0.1")))
	ctx = huntNextBlock(t, e, ctx, time.Hour*4) // weight decay
	_, err := ms.UpdateAlliance(ctx, &types.MsgUpdateAlliance{
		Authority: e.app.AllianceKeeper.GetAuthority(), Denom: AllianceDenomTwo, RewardWeight: math.LegacyMustNewDecFromStr("0.2"),
		RewardWeightRange: types.RewardWeightRange{Min: math.LegacyZeroDec(), Max: math.LegacyNewDec(5)},
		TakeRate:          math.LegacyMustNewDecFromStr("0.00001"), RewardChangeRate: math.LegacyMustNewDecFromStr("1.1"), RewardChangeInterval: time.Hour,
	})
	require.NoError(t, err)
	_, err = ms.ClaimDelegationRewards(ctx, &types.MsgClaimDelegationRewards{DelegatorAddress: u[1].String(), ValidatorAddress: v[1].String(), Denom: AllianceDenomTwo})
	require.NoError(t, err)
	redel(ctx, u[1], v[1], v[0], AllianceDenomTwo, 1_000_000)
	ctx = huntNextBlock(t, e, ctx, time.Minute*10)
	return e, ctx
}

// Differential check: store after JSON export + wipe + import equals the original store
func TestHuntStoreRoundTrip(t *testing.T) {
	e, ctx := huntBuildState(t)
	before := huntDumpStore(t, e.app, ctx)
	g1 := huntReimport(t, e.app, ctx)
	after := huntDumpStore(t, e.app, ctx)
	diffs := huntDiffStores(before, after, 0x13, 0x23)
	for _, d := range diffs {
		t.Log(d)
	}
	require.Empty(t, diffs)
	g2 := e.app.AllianceKeeper.ExportGenesis(ctx)
	require.Equal(t, e.app.AppCodec().MustMarshalJSON(g1), e.app.AppCodec().MustMarshalJSON(g2))
	require.NoError(t, alliance.ValidateGenesis(g1))
	t.Logf("assets=%d vals=%d dels=%d redels=%d undels=%d snaps=%d", len(g1.Assets), len(g1.ValidatorInfos), len(g1.Delegations), len(g1.Redelegations), len(g1.Undelegations), len(g1.RewardWeightChangeSnaphots))
}

// Behavioural differential: same operations on the original and on the re-imported module
func TestHuntBehaviourAfterImport(t *testing.T) {
	e, ctx := huntBuildState(t)
	ctxA, _ := ctx.CacheContext()
	ctxB, _ := ctx.CacheContext()
	huntReimport(t, e.app, ctxB)
	u, v := e.users, e.vals
	run := func(ctx sdk.Context) (sdk.Context, []string) {
		var log []string
		rec := func(s string, err error) {
			log = append(log, fmt.Sprintf("%s: %v", s, err))
		}
		ms := e.ms
		_, err := ms.Redelegate(ctx, &types.MsgRedelegate{DelegatorAddress: u[0].String(), ValidatorSrcAddress: v[2].String(), ValidatorDstAddress: v[1].String(), Amount: sdk.NewCoin(AllianceDenom, math.NewInt(10))})
		rec("transitive redelegate", err)
		_, err = ms.Redelegate(ctx, &types.MsgRedelegate{DelegatorAddress: u[2].String(), ValidatorSrcAddress: v[2].String(), ValidatorDstAddress: v[1].String(), Amount: sdk.NewCoin(AllianceDenom, math.NewInt(100_000))})
		rec("redelegate", err)
		rec("slash v0", e.app.StakingKeeper.Hooks().BeforeValidatorSlashed(ctx, v[0], math.LegacyMustNewDecFromStr("0.5")))
		rec("slash v1", e.app.StakingKeeper.Hooks().BeforeValidatorSlashed(ctx, v[1], math.LegacyMustNewDecFromStr("0.25")))
		rec("slash v2", e.app.StakingKeeper.Hooks().BeforeValidatorSlashed(ctx, v[2], math.LegacyMustNewDecFromStr("0.01")))
		for i := 0; i < 12; i++ {
			ctx = huntNextBlock(t, e, ctx, time.Hour*48+time.Second)
			for _, d := range u {
				for _, va := range v {
					for _, dn := range []string{AllianceDenom, AllianceDenomTwo} {
						_, err = ms.ClaimDelegationRewards(ctx, &types.MsgClaimDelegationRewards{DelegatorAddress: d.String(), ValidatorAddress: va.String(), Denom: dn})
						if i == 0 || i == 11 {
							rec("claim", err)
						}
					}
				}
				log = append(log, e.app.BankKeeper.GetAllBalances(ctx, d).String())
				ub, err := e.app.AllianceKeeper.GetUnbondingsByDelegator(ctx, d)
				log = append(log, fmt.Sprintf("%v %v", ub, err))
			}
			if i == 5 {
				_, err = ms.Undelegate(ctx, &types.MsgUndelegate{DelegatorAddress: u[0].String(), ValidatorAddress: v[2].String(), Amount: sdk.NewCoin(AllianceDenom, math.NewInt(1_000_000))})
				rec("undelegate", err)
				rec("slash v2 again", e.app.StakingKeeper.Hooks().BeforeValidatorSlashed(ctx, v[2], math.LegacyMustNewDecFromStr("0.5")))
			}
		}
		return ctx, log
	}
	ctxA, logA := run(ctxA)
	ctxB, logB := run(ctxB)
	require.Equal(t, logA, logB)
	diffs := huntDiffStores(huntDumpStore(t, e.app, ctxA), huntDumpStore(t, e.app, ctxB))
	for _, d := range diffs {
		t.Log(d)
	}
	require.Empty(t, diffs)
	for _, d := range u {
		require.Equal(t, e.app.BankKeeper.GetAllBalances(ctxA, d), e.app.BankKeeper.GetAllBalances(ctxB, d))
	}
	t.Log(len(logA), logA[:6])
}

// The state exported by a chain must be accepted by the module's own genesis validation (allianced validate-genesis),
// otherwise the export cannot be imported through the regular genesis pipeline.
func TestHuntExportedGenesisRejectedByValidateGenesis(t *testing.T) {
	e, ctx := huntSetup(t)
	u, v := e.users, e.vals
	am := alliance.NewAppModule(e.app.AppCodec(), e.app.AllianceKeeper, e.app.StakingKeeper, e.app.AccountKeeper, e.app.BankKeeper, e.app.InterfaceRegistry(), e.app.GetSubspace(types.ModuleName))

	_, err := e.ms.Delegate(ctx, &types.MsgDelegate{DelegatorAddress: u[0].String(), ValidatorAddress: v[0].String(), Amount: sdk.NewCoin(AllianceDenomTwo, math.NewInt(1_000_000))})
	require.NoError(t, err)
	ctx = huntNextBlock(t, e, ctx, time.Hour*2)
	// a state with delegations exports fine and validates
	require.NoError(t, am.ValidateGenesis(e.app.AppCodec(), nil, am.ExportGenesis(ctx, e.app.AppCodec())))

	_, err = e.ms.Redelegate(ctx, &types.MsgRedelegate{DelegatorAddress: u[0].String(), ValidatorSrcAddress: v[0].String(), ValidatorDstAddress: v[1].String(), Amount: sdk.NewCoin(AllianceDenomTwo, math.NewInt(1_000_000))})
	require.NoError(t, err)
	ctx = huntNextBlock(t, e, ctx, time.Hour)
	_, err = e.ms.Undelegate(ctx, &types.MsgUndelegate{DelegatorAddress: u[0].String(), ValidatorAddress: v[1].String(), Amount: sdk.NewCoin(AllianceDenomTwo, math.NewInt(1_000_000))})
	require.NoError(t, err)
	ctx = huntNextBlock(t, e, ctx, time.Hour)

	raw := am.ExportGenesis(ctx, e.app.AppCodec())
	var gs types.GenesisState
	e.app.AppCodec().MustUnmarshalJSON(raw, &gs)
	require.Len(t, gs.Delegations, 0)
	require.Len(t, gs.Redelegations, 1)
	require.Len(t, gs.Undelegations, 1)
	// the keeper imports the state without complaint ...
	huntWipeStore(t, e.app, ctx)
	require.NotPanics(t, func() { am.InitGenesis(ctx, e.app.AppCodec(), raw) })
	// ... but the module's genesis validation rejects what the module itself exported
	require.NoError(t, am.ValidateGenesis(e.app.AppCodec(), nil, raw))
}

// Zero-height export of the repository's app (allianced export --for-zero-height): rewards accrued by alliance
// delegators must still be paid out after the export.
func TestHuntZeroHeightExportDropsAccruedRewards(t *testing.T) {
	e, ctx := huntSetup(t)
	u, v := e.users, e.vals
	_, err := e.ms.Delegate(ctx, &types.MsgDelegate{DelegatorAddress: u[0].String(), ValidatorAddress: v[0].String(), Amount: sdk.NewCoin(AllianceDenomTwo, math.NewInt(1_000_000))})
	require.NoError(t, err)
	ctx = huntNextBlock(t, e, ctx, time.Hour*2) // rewards start, module stakes on v0
	ctx = huntNextBlock(t, e, ctx, time.Hour)
	ctx = huntNextBlock(t, e, ctx, time.Hour) // rewards allocated to the module's staking position

	claimable := func(ctx sdk.Context) sdk.Coins {
		c, _ := ctx.CacheContext()
		val, err := e.app.AllianceKeeper.GetAllianceValidator(c, v[0])
		require.NoError(t, err)
		coins, err := e.app.AllianceKeeper.ClaimDelegationRewards(c, u[0], val, AllianceDenomTwo)
		require.NoError(t, err)
		return coins
	}
	before := claimable(ctx)
	require.False(t, before.IsZero())

	_, err = e.app.ExportAppStateAndValidators(true, nil, nil)
	require.NoError(t, err)
	after := claimable(ctx)
	t.Logf("claimable before export %s, after %s; module account %s", before, after, e.app.BankKeeper.GetAllBalances(ctx, e.app.AccountKeeper.GetModuleAddress(types.ModuleName)))
	// the stranded coins are not even kept for later: the next end blocker burns every bond-denom coin of the module account
	cc, _ := ctx.CacheContext()
	require.NoError(t, alliance.EndBlocker(cc, e.app.AllianceKeeper))
	t.Logf("after the next end blocker: module account %s, rewards pool %s", e.app.BankKeeper.GetAllBalances(cc, e.app.AccountKeeper.GetModuleAddress(types.ModuleName)), e.app.BankKeeper.GetAllBalances(cc, e.app.AccountKeeper.GetModuleAddress(types.RewardsPoolName)))
	require.Equal(t, before, after)
}
