package tests_test

import (
	"fmt"
	"testing"
	"time"

	"cosmossdk.io/math"
	storetypes "cosmossdk.io/store/types"

	codectypes "github.com/cosmos/cosmos-sdk/codec/types"
	sdk "github.com/cosmos/cosmos-sdk/types"
	crisistypes "github.com/cosmos/cosmos-sdk/x/crisis/types"
	stakingkeeper "github.com/cosmos/cosmos-sdk/x/staking/keeper"
	stakingtypes "github.com/cosmos/cosmos-sdk/x/staking/types"
	"github.com/stretchr/testify/require"

	test_helpers "github.com/terra-money/alliance/app"
	"github.com/terra-money/alliance/x/alliance"
	"github.com/terra-money/alliance/x/alliance/keeper"
	"github.com/terra-money/alliance/x/alliance/types"
)

// C19: "Nothing that reaches state or results depends on map iteration order".
//
// The delegator-shares invariant (route alliance/delegator-shares, registered with x/crisis and
// reachable with MsgVerifyInvariant and the crisis end blocker) walks a Go map of validators and
// (a) overwrites/concatenates its message in map order and (b) stops at the first validator without
// an alliance validator record. On one and the same state the reported message and the gas that the
// MsgVerifyInvariant transaction consumed differ from run to run.
//
// The state is produced by the chain itself: three validators that never enter the active set
// (consensus power 0), a delegator with alliance stake on all three, then two of the operators
// withdraw their self delegation so that x/staking removes these validators (AfterValidatorRemoved).
func TestHuntInvariantDependsOnMapOrder(t *testing.T) {
	app, ctx := createTestContext(t)
	startTime := time.Date(2024, 1, 1, 0, 0, 0, 0, time.UTC)
	ctx = ctx.WithBlockTime(startTime).WithBlockHeight(2)

	bondDenom, err := app.StakingKeeper.BondDenom(ctx)
	require.NoError(t, err)

	allianceMsgServer := keeper.NewMsgServerImpl(app.AllianceKeeper)
	stakingMsgServer := stakingkeeper.NewMsgServerImpl(app.StakingKeeper)

	_, err = allianceMsgServer.CreateAlliance(ctx, &types.MsgCreateAlliance{
		Authority:            app.AllianceKeeper.GetAuthority(),
		Denom:                AllianceDenom,
		RewardWeight:         math.LegacyNewDecWithPrec(1, 1),
		TakeRate:             math.LegacyZeroDec(),
		RewardChangeRate:     math.LegacyOneDec(),
		RewardChangeInterval: 0,
		RewardWeightRange:    types.RewardWeightRange{Min: math.LegacyZeroDec(), Max: math.LegacyNewDec(1)},
	})
	require.NoError(t, err)

	addrs := test_helpers.AddTestAddrsIncremental(app, ctx, 4, sdk.NewCoins(
		sdk.NewCoin(bondDenom, math.NewInt(10_000_000)),
		sdk.NewCoin(AllianceDenom, math.NewInt(10_000_000)),
	))
	pks := test_helpers.CreateTestPubKeys(3)
	user := addrs[3]

	// three validators with a self delegation of 100 units: consensus power 0, they stay unbonded
	selfDelegation := sdk.NewCoin(bondDenom, math.NewInt(100))
	var valAddrs []sdk.ValAddress
	for i := 0; i < 3; i++ {
		valAddr := sdk.ValAddress(addrs[i])
		pkAny, err := codectypes.NewAnyWithValue(pks[i])
		require.NoError(t, err)
		_, err = stakingMsgServer.CreateValidator(ctx, &stakingtypes.MsgCreateValidator{
			Description:       stakingtypes.Description{Moniker: fmt.Sprintf("val%d", i)},
			Commission:        stakingtypes.NewCommissionRates(math.LegacyZeroDec(), math.LegacyOneDec(), math.LegacyOneDec()),
			MinSelfDelegation: math.OneInt(),
			ValidatorAddress:  valAddr.String(),
			Pubkey:            pkAny,
			Value:             selfDelegation,
		})
		require.NoError(t, err)
		valAddrs = append(valAddrs, valAddr)
	}

	// alliance stake of the user on all three validators
	for _, valAddr := range valAddrs {
		_, err = allianceMsgServer.Delegate(ctx, &types.MsgDelegate{
			DelegatorAddress: user.String(),
			ValidatorAddress: valAddr.String(),
			Amount:           sdk.NewCoin(AllianceDenom, math.NewInt(1_000_000)),
		})
		require.NoError(t, err)
	}

	// block boundary
	_, err = app.StakingKeeper.EndBlocker(ctx)
	require.NoError(t, err)
	require.NoError(t, alliance.EndBlocker(ctx, app.AllianceKeeper))
	ctx = ctx.WithBlockTime(startTime.Add(5 * time.Second)).WithBlockHeight(3)

	// the invariant holds so far
	_, broken := alliance.DelegatorSharesInvariant(app.AllianceKeeper)(ctx)
	require.False(t, broken)

	// the operators of validator 1 and 2 withdraw their self delegation, x/staking removes the validators
	for _, i := range []int{1, 2} {
		_, err = stakingMsgServer.Undelegate(ctx, &stakingtypes.MsgUndelegate{
			DelegatorAddress: addrs[i].String(),
			ValidatorAddress: valAddrs[i].String(),
			Amount:           selfDelegation,
		})
		require.NoError(t, err)
		_, err = app.StakingKeeper.GetValidator(ctx, valAddrs[i])
		require.Error(t, err, "x/staking removed the validator")
	}
	_, err = app.StakingKeeper.EndBlocker(ctx)
	require.NoError(t, err)
	require.NoError(t, alliance.EndBlocker(ctx, app.AllianceKeeper))
	ctx = ctx.WithBlockTime(startTime.Add(10 * time.Second)).WithBlockHeight(4)

	// Same state, same transaction (MsgVerifyInvariant alliance/delegator-shares), executed repeatedly
	// on a branch of the state, like every node of the network would execute it.
	sender := addrs[0]
	type outcome struct {
		msg string
		gas storetypes.Gas
	}
	run := func() (o outcome) {
		branch, _ := ctx.CacheContext()
		branch = branch.WithGasMeter(storetypes.NewGasMeter(100_000_000))
		defer func() {
			if r := recover(); r != nil {
				o.msg = fmt.Sprint(r)
			}
			o.gas = branch.GasMeter().GasConsumed()
		}()
		_, err := app.CrisisKeeper.VerifyInvariant(branch, &crisistypes.MsgVerifyInvariant{
			Sender:              sender.String(),
			InvariantModuleName: types.ModuleName,
			InvariantRoute:      "delegator-shares",
		})
		if err != nil {
			o.msg = "error: " + err.Error()
		}
		return o
	}

	first := run()
	require.Contains(t, first.msg, "not found", "sanity: the invariant is broken because of the removed validators")
	messages := map[string]int{first.msg: 1}
	gasUsed := map[storetypes.Gas]int{first.gas: 1}
	for i := 0; i < 200; i++ {
		o := run()
		messages[o.msg]++
		gasUsed[o.gas]++
	}
	t.Logf("distinct messages: %d, distinct gas values: %v", len(messages), gasUsed)
	for m, n := range messages {
		t.Logf("%3d x %q", n, m)
	}

	// C19: identical results for the identical transaction on the identical state
	if len(messages) != 1 {
		t.Errorf("the result of MsgVerifyInvariant depends on map iteration order: %d different messages on the same state", len(messages))
	}
	if len(gasUsed) != 1 {
		t.Errorf("the gas used by MsgVerifyInvariant depends on map iteration order: %v (gas -> runs)", gasUsed)
	}
}
