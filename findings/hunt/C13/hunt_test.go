package tests_test

import (
	"testing"
	"time"

	"cosmossdk.io/math"

	test_helpers "github.com/terra-money/alliance/app"
	"github.com/terra-money/alliance/x/alliance"
	"github.com/terra-money/alliance/x/alliance/keeper"
	"github.com/terra-money/alliance/x/alliance/types"

	abcitypes "github.com/cometbft/cometbft/abci/types"
	sdk "github.com/cosmos/cosmos-sdk/types"
	authtypes "github.com/cosmos/cosmos-sdk/x/auth/types"
	minttypes "github.com/cosmos/cosmos-sdk/x/mint/types"
	"github.com/stretchr/testify/require"
)

// huntAllocate sends `amount` of the bond denom to the fee collector and lets x/distribution allocate it to the
// validator exactly as its begin blocker does (the rewards stay in x/distribution until somebody withdraws them).
func huntAllocate(t *testing.T, app *test_helpers.App, ctx sdk.Context, val types.AllianceValidator, amount int64) {
	bondDenom, err := app.StakingKeeper.BondDenom(ctx)
	require.NoError(t, err)
	coins := sdk.NewCoins(sdk.NewCoin(bondDenom, math.NewInt(amount)))
	require.NoError(t, app.BankKeeper.MintCoins(ctx, minttypes.ModuleName, coins))
	require.NoError(t, app.BankKeeper.SendCoinsFromModuleToModule(ctx, minttypes.ModuleName, authtypes.FeeCollectorName, coins))
	cons, err := val.GetConsAddr()
	require.NoError(t, err)
	err = app.DistrKeeper.AllocateTokens(ctx, 1, []abcitypes.VoteInfo{{
		Validator:   abcitypes.Validator{Address: cons, Power: 1},
		BlockIdFlag: 2,
	}})
	require.NoError(t, err)
}

func huntSetup(t *testing.T, params types.Params, assets []types.AllianceAsset, start time.Time) (*test_helpers.App, sdk.Context, types.AllianceValidator, sdk.ValAddress) {
	app, ctx := createTestContext(t)
	ctx = ctx.WithBlockTime(start).WithBlockHeight(1)
	app.AllianceKeeper.InitGenesis(ctx, &types.GenesisState{Params: params, Assets: assets})

	distParams, err := app.DistrKeeper.Params.Get(ctx)
	require.NoError(t, err)
	distParams.CommunityTax = math.LegacyZeroDec()
	require.NoError(t, app.DistrKeeper.Params.Set(ctx, distParams))

	delegations, err := app.StakingKeeper.GetAllDelegations(ctx)
	require.NoError(t, err)
	valAddr, err := sdk.ValAddressFromBech32(delegations[0].ValidatorAddress)
	require.NoError(t, err)
	val, err := app.AllianceKeeper.GetAllianceValidator(ctx, valAddr)
	require.NoError(t, err)
	return app, ctx, val, valAddr
}

// Clause: "a claim pays the accumulated entitlement to within one base unit per claim and reward denomination".
// Two identical positions (same asset, same validator, same size, both present for the whole period) are entitled to the
// same share of a reward that was received by the validator. The one that claims after the take-rate hook ran only gets
// half of it, because the hook lowers asset.TotalTokens (re-prices every position) without settling the rewards.
func TestHuntTakeRateRepricesAccruedRewards(t *testing.T) {
	start := time.Now().UTC()
	interval := 5 * time.Minute
	app, ctx, val, valAddr := huntSetup(t, types.Params{
		RewardDelayTime:       time.Hour,
		TakeRateClaimInterval: interval,
		LastTakeRateClaimTime: start,
	}, []types.AllianceAsset{
		types.NewAllianceAsset(AllianceDenom, math.LegacyNewDec(1), math.LegacyZeroDec(), math.LegacyNewDec(5), math.LegacyMustNewDecFromStr("0.5"), start),
	}, start)
	msgServer := keeper.NewMsgServerImpl(app.AllianceKeeper)
	bondDenom, _ := app.StakingKeeper.BondDenom(ctx)
	rewardsPool := app.AccountKeeper.GetModuleAddress(types.RewardsPoolName)

	addrs := test_helpers.AddTestAddrsIncremental(app, ctx, 2, sdk.NewCoins(sdk.NewCoin(AllianceDenom, math.NewInt(1_000_000))))
	user1, user2 := addrs[0], addrs[1]
	for _, u := range addrs {
		_, err := msgServer.Delegate(ctx, &types.MsgDelegate{DelegatorAddress: u.String(), ValidatorAddress: valAddr.String(), Amount: sdk.NewCoin(AllianceDenom, math.NewInt(1_000_000))})
		require.NoError(t, err)
	}
	require.NoError(t, alliance.EndBlocker(ctx, app.AllianceKeeper)) // rebalance: the module stakes on the validator

	// next block: the validator earns a reward
	ctx = ctx.WithBlockHeight(2).WithBlockTime(start.Add(time.Minute))
	huntAllocate(t, app, ctx, val, 40_000_000)

	// user1 claims at once
	before1 := app.BankKeeper.GetBalance(ctx, user1, bondDenom).Amount
	_, err := msgServer.ClaimDelegationRewards(ctx, &types.MsgClaimDelegationRewards{DelegatorAddress: user1.String(), ValidatorAddress: valAddr.String(), Denom: AllianceDenom})
	require.NoError(t, err)
	paid1 := app.BankKeeper.GetBalance(ctx, user1, bondDenom).Amount.Sub(before1)
	require.True(t, paid1.GT(math.NewInt(1000)), "user1 must have received something: %s", paid1)
	poolAfter1 := app.BankKeeper.GetBalance(ctx, rewardsPool, bondDenom).Amount
	// the pool still holds user2's half
	require.True(t, poolAfter1.Sub(paid1).Abs().LTE(math.NewInt(2)), "pool %s vs paid1 %s", poolAfter1, paid1)
	require.NoError(t, alliance.EndBlocker(ctx, app.AllianceKeeper))

	// one take-rate interval later the end blocker deducts the take rate; NO new reward arrives
	ctx = ctx.WithBlockHeight(3).WithBlockTime(start.Add(interval + time.Second))
	require.NoError(t, alliance.EndBlocker(ctx, app.AllianceKeeper))
	asset, _ := app.AllianceKeeper.GetAssetByDenom(ctx, AllianceDenom)
	require.Equal(t, math.NewInt(1_000_000), asset.TotalTokens) // 2_000_000 * 0.5

	ctx = ctx.WithBlockHeight(4).WithBlockTime(start.Add(interval + 2*time.Second))
	before2 := app.BankKeeper.GetBalance(ctx, user2, bondDenom).Amount
	_, err = msgServer.ClaimDelegationRewards(ctx, &types.MsgClaimDelegationRewards{DelegatorAddress: user2.String(), ValidatorAddress: valAddr.String(), Denom: AllianceDenom})
	require.NoError(t, err)
	paid2 := app.BankKeeper.GetBalance(ctx, user2, bondDenom).Amount.Sub(before2)
	poolLeft := app.BankKeeper.GetBalance(ctx, rewardsPool, bondDenom).Amount
	t.Logf("paid to user1 (claimed before the take rate hook) = %s, paid to user2 (same entitlement, claimed after) = %s, left in the rewards pool = %s", paid1, paid2, poolLeft)

	// identical entitlement -> identical payout (one base unit per claim)
	require.True(t, paid1.Sub(paid2).Abs().LTE(math.NewInt(2)),
		"user2 was entitled to %s (same as user1) but the claim paid %s; %s stay in the rewards pool for nobody", paid1, paid2, poolLeft)
}

// Clause: "Rewards that accrued (even if not yet withdrawn from the distribution module) before a position existed or
// grew are not payable to the new stake".
// A position of an asset that is still in its warm-up is grown; ClaimDelegationRewards returns before it settles the
// validator (ClaimValidatorRewards), so the rewards that are pending in x/distribution are not put into the index
// before the shares are added. After the start time the whole pending amount is split with the grown position.
func TestHuntGrowthDuringWarmupNotSettled(t *testing.T) {
	start := time.Now().UTC()
	run := func(t *testing.T, growExisting bool) math.Int {
		app, ctx, val, valAddr := huntSetup(t, types.DefaultParams(), []types.AllianceAsset{
			types.NewAllianceAsset(AllianceDenom, math.LegacyNewDec(1), math.LegacyZeroDec(), math.LegacyNewDec(5), math.LegacyZeroDec(), start),
			types.NewAllianceAsset(AllianceDenomTwo, math.LegacyNewDec(1), math.LegacyZeroDec(), math.LegacyNewDec(5), math.LegacyZeroDec(), start.Add(time.Hour)),
		}, start)
		msgServer := keeper.NewMsgServerImpl(app.AllianceKeeper)
		bondDenom, _ := app.StakingKeeper.BondDenom(ctx)

		addrs := test_helpers.AddTestAddrsIncremental(app, ctx, 3, sdk.NewCoins(
			sdk.NewCoin(AllianceDenom, math.NewInt(1_000_000)),
			sdk.NewCoin(AllianceDenomTwo, math.NewInt(2_000_000)),
		))
		userA, userB, userC := addrs[0], addrs[1], addrs[2]
		_, err := msgServer.Delegate(ctx, &types.MsgDelegate{DelegatorAddress: userA.String(), ValidatorAddress: valAddr.String(), Amount: sdk.NewCoin(AllianceDenom, math.NewInt(1_000_000))})
		require.NoError(t, err)
		// a 1-unit position of the asset that is in warm-up
		_, err = msgServer.Delegate(ctx, &types.MsgDelegate{DelegatorAddress: userB.String(), ValidatorAddress: valAddr.String(), Amount: sdk.NewCoin(AllianceDenomTwo, math.NewInt(1))})
		require.NoError(t, err)
		require.NoError(t, alliance.EndBlocker(ctx, app.AllianceKeeper))

		// the validator earns a reward; it stays in x/distribution
		ctx = ctx.WithBlockHeight(2).WithBlockTime(start.Add(10 * time.Minute))
		huntAllocate(t, app, ctx, val, 40_000_000)
		require.NoError(t, alliance.EndBlocker(ctx, app.AllianceKeeper))

		// still in warm-up: 1_000_000 new tokens arrive
		ctx = ctx.WithBlockHeight(3).WithBlockTime(start.Add(59 * time.Minute))
		grower := userB
		if !growExisting {
			grower = userC // control: the same stake arrives as a new position
		}
		_, err = msgServer.Delegate(ctx, &types.MsgDelegate{DelegatorAddress: grower.String(), ValidatorAddress: valAddr.String(), Amount: sdk.NewCoin(AllianceDenomTwo, math.NewInt(1_000_000))})
		require.NoError(t, err)
		require.NoError(t, alliance.EndBlocker(ctx, app.AllianceKeeper))

		// warm-up over, no further reward was received by the validator
		ctx = ctx.WithBlockHeight(4).WithBlockTime(start.Add(61 * time.Minute))
		before := app.BankKeeper.GetBalance(ctx, grower, bondDenom).Amount
		_, err = msgServer.ClaimDelegationRewards(ctx, &types.MsgClaimDelegationRewards{DelegatorAddress: grower.String(), ValidatorAddress: valAddr.String(), Denom: AllianceDenomTwo})
		require.NoError(t, err)
		return app.BankKeeper.GetBalance(ctx, grower, bondDenom).Amount.Sub(before)
	}

	var control, grown math.Int
	t.Run("control_new_position", func(t *testing.T) {
		control = run(t, false)
		require.True(t, control.IsZero(), "new position got %s", control)
	})
	t.Run("grown_position", func(t *testing.T) {
		grown = run(t, true)
		t.Logf("control (stake arrives as a new position): %s ; stake arrives as growth of a 1-unit position: %s", control, grown)
		// everything the validator earned accrued before the 1_000_000 tokens arrived; the 1 old unit can justify at most
		// a millionth of it
		require.True(t, grown.LTE(math.NewInt(100)), "the stake that arrived after the reward accrued was paid %s of it", grown)
	})
}

// Clause: "a claim pays the accumulated entitlement to within one base unit per claim and reward denomination (rounded
// down ...)". CalculateDelegationRewards truncates once per reward-weight-change snapshot that lies between two claims,
// so a single claim is short by up to one unit per weight change.
func TestHuntOneClaimLosesOneUnitPerWeightChange(t *testing.T) {
	start := time.Now().UTC()
	app, ctx, val, valAddr := huntSetup(t, types.DefaultParams(), []types.AllianceAsset{
		types.NewAllianceAsset(AllianceDenom, math.LegacyNewDec(1), math.LegacyZeroDec(), math.LegacyNewDec(50), math.LegacyZeroDec(), start),
	}, start)
	msgServer := keeper.NewMsgServerImpl(app.AllianceKeeper)
	bondDenom, _ := app.StakingKeeper.BondDenom(ctx)

	addrs := test_helpers.AddTestAddrsIncremental(app, ctx, 2, sdk.NewCoins(sdk.NewCoin(AllianceDenom, math.NewInt(1_000_000))))
	user1, user2 := addrs[0], addrs[1]
	_, err := msgServer.Delegate(ctx, &types.MsgDelegate{DelegatorAddress: user1.String(), ValidatorAddress: valAddr.String(), Amount: sdk.NewCoin(AllianceDenom, math.NewInt(3))})
	require.NoError(t, err)
	_, err = msgServer.Delegate(ctx, &types.MsgDelegate{DelegatorAddress: user2.String(), ValidatorAddress: valAddr.String(), Amount: sdk.NewCoin(AllianceDenom, math.NewInt(999_997))})
	require.NoError(t, err)
	require.NoError(t, alliance.EndBlocker(ctx, app.AllianceKeeper))

	del0, _ := app.AllianceKeeper.GetDelegation(ctx, user1, valAddr, AllianceDenom)
	idx0 := math.LegacyZeroDec()
	if h, ok := types.NewRewardHistories(del0.RewardHistory).GetIndexByDenom(bondDenom, AllianceDenom); ok {
		idx0 = h.Index
	}

	const changes = 12
	for i := 1; i <= changes; i++ {
		ctx = ctx.WithBlockHeight(int64(1 + i)).WithBlockTime(start.Add(time.Duration(i) * time.Minute))
		huntAllocate(t, app, ctx, val, 1_000_000+int64(i)*7_919)
		// governance changes the reward weight (settles every validator and stores a snapshot)
		_, err = msgServer.UpdateAlliance(ctx, &types.MsgUpdateAlliance{
			Authority:            app.AllianceKeeper.GetAuthority(),
			Denom:                AllianceDenom,
			RewardWeight:         math.LegacyNewDec(int64(1 + i)),
			RewardWeightRange:    types.RewardWeightRange{Min: math.LegacyZeroDec(), Max: math.LegacyNewDec(50)},
			TakeRate:             math.LegacyZeroDec(),
			RewardChangeRate:     math.LegacyOneDec(),
			RewardChangeInterval: 0,
		})
		require.NoError(t, err)
		require.NoError(t, alliance.EndBlocker(ctx, app.AllianceKeeper))
	}

	ctx = ctx.WithBlockHeight(ctx.BlockHeight() + 1).WithBlockTime(ctx.BlockTime().Add(time.Minute))
	before := app.BankKeeper.GetBalance(ctx, user1, bondDenom).Amount
	_, err = msgServer.ClaimDelegationRewards(ctx, &types.MsgClaimDelegationRewards{DelegatorAddress: user1.String(), ValidatorAddress: valAddr.String(), Denom: AllianceDenom})
	require.NoError(t, err)
	paid := app.BankKeeper.GetBalance(ctx, user1, bondDenom).Amount.Sub(before)

	// entitlement of the 3 tokens = 3 * (index now - index at the last claim); the token value never changed
	valNow, err := app.AllianceKeeper.GetAllianceValidator(ctx, valAddr)
	require.NoError(t, err)
	h, ok := types.NewRewardHistories(valNow.GlobalRewardHistory).GetIndexByDenom(bondDenom, AllianceDenom)
	require.True(t, ok)
	entitlement := h.Index.Sub(idx0).MulInt64(3)
	t.Logf("entitlement = %s, one claim paid = %s", entitlement, paid)
	require.True(t, paid.GTE(entitlement.TruncateInt().SubRaw(1)),
		"a single claim paid %s for an entitlement of %s (more than one base unit short)", paid, entitlement)
}
