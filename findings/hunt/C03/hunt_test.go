package tests_test

import (
	"fmt"
	"testing"
	"time"

	"cosmossdk.io/math"

	test_helpers "github.com/terra-money/alliance/app"
	"github.com/terra-money/alliance/x/alliance"
	"github.com/terra-money/alliance/x/alliance/keeper"
	"github.com/terra-money/alliance/x/alliance/types"

	sdk "github.com/cosmos/cosmos-sdk/types"
	teststaking "github.com/cosmos/cosmos-sdk/x/staking/testutil"
	"github.com/stretchr/testify/require"
)

const huntDenom = "hunt"

type huntEnv struct {
	app   *test_helpers.App
	ctx   sdk.Context
	ms    keeper.MsgServer
	vals  []sdk.ValAddress
	users []sdk.AccAddress
	start time.Time
}

// huntSetup creates the alliance through the gov message, registers nVals fresh bonded validators and nUsers funded users.
func huntSetup(t *testing.T, takeRate string, nVals, nUsers int) *huntEnv {
	app, ctx := createTestContext(t)
	start := time.Now().UTC()
	ctx = ctx.WithBlockTime(start).WithBlockHeight(1)
	app.AllianceKeeper.InitGenesis(ctx, &types.GenesisState{
		Params: types.Params{
			RewardDelayTime:       time.Minute,
			TakeRateClaimInterval: 5 * time.Minute,
			LastTakeRateClaimTime: start,
		},
	})
	ms := keeper.MsgServer{Keeper: app.AllianceKeeper}
	_, err := ms.CreateAlliance(ctx, &types.MsgCreateAlliance{
		Authority:            app.AllianceKeeper.GetAuthority(),
		Denom:                huntDenom,
		RewardWeight:         math.LegacyMustNewDecFromStr("0.1"),
		TakeRate:             math.LegacyMustNewDecFromStr(takeRate),
		RewardChangeRate:     math.LegacyOneDec(),
		RewardChangeInterval: 0,
		RewardWeightRange:    types.RewardWeightRange{Min: math.LegacyZeroDec(), Max: math.LegacyNewDec(5)},
	})
	require.NoError(t, err)

	addrs := test_helpers.AddTestAddrsIncremental(app, ctx, nVals+nUsers, sdk.NewCoins(sdk.NewCoin(huntDenom, math.NewInt(1_000_000_000))))
	pks := test_helpers.CreateTestPubKeys(nVals)
	env := &huntEnv{app: app, ms: ms, start: start}
	for i := 0; i < nVals; i++ {
		valAddr := sdk.ValAddress(addrs[i])
		v := teststaking.NewValidator(t, valAddr, pks[i])
		test_helpers.RegisterNewValidator(t, app, ctx, v)
		env.vals = append(env.vals, valAddr)
	}
	env.users = addrs[nVals:]
	env.ctx = ctx
	return env
}

func (e *huntEnv) delegate(t *testing.T, user sdk.AccAddress, val sdk.ValAddress, amt int64) {
	_, err := e.ms.Delegate(e.ctx, &types.MsgDelegate{DelegatorAddress: user.String(), ValidatorAddress: val.String(), Amount: sdk.NewCoin(huntDenom, math.NewInt(amt))})
	require.NoError(t, err)
}

func (e *huntEnv) undelegate(t *testing.T, user sdk.AccAddress, val sdk.ValAddress, amt int64) {
	_, err := e.ms.Undelegate(e.ctx, &types.MsgUndelegate{DelegatorAddress: user.String(), ValidatorAddress: val.String(), Amount: sdk.NewCoin(huntDenom, math.NewInt(amt))})
	require.NoError(t, err)
}

func (e *huntEnv) nextBlock(t *testing.T, d time.Duration) {
	e.ctx = e.ctx.WithBlockTime(e.ctx.BlockTime().Add(d)).WithBlockHeight(e.ctx.BlockHeight() + 1)
	require.NoError(t, alliance.EndBlocker(e.ctx, e.app.AllianceKeeper))
}

// sumValidatorShares sums the per validator asset shares straight from the store
func (e *huntEnv) sumValidatorShares(t *testing.T, denom string) math.LegacyDec {
	sum := math.LegacyZeroDec()
	err := e.app.AllianceKeeper.IterateAllianceValidatorInfo(e.ctx, func(_ sdk.ValAddress, info types.AllianceValidatorInfo) bool {
		sum = sum.Add(sdk.DecCoins(info.ValidatorShares).AmountOf(denom))
		return false
	})
	require.NoError(t, err)
	return sum
}

// Clause: for every asset the validators' asset shares sum to the asset's recorded share total.
// An ordinary full undelegation (rounded up by types.Rounder) of the last delegator of a validator removes more
// validator shares from the asset than the validator holds; the validator side is clamped, the asset side is not.
func TestHuntUndelegateRoundUpBreaksAssetShareSum(t *testing.T) {
	e := huntSetup(t, "0.199", 2, 2)
	a, b := e.users[0], e.users[1]
	v1, v2 := e.vals[0], e.vals[1]

	e.delegate(t, a, v1, 995)
	e.delegate(t, b, v2, 5)

	asset, _ := e.app.AllianceKeeper.GetAssetByDenom(e.ctx, huntDenom)
	require.Equal(t, math.NewInt(1000), asset.TotalTokens)
	require.True(t, asset.TotalValidatorShares.Equal(e.sumValidatorShares(t, huntDenom)))

	// one take rate interval: 1000 * (1 - 0.199) = 801 tokens are left
	e.nextBlock(t, 6*time.Minute)
	asset, _ = e.app.AllianceKeeper.GetAssetByDenom(e.ctx, huntDenom)
	require.Equal(t, math.NewInt(801), asset.TotalTokens)
	require.True(t, asset.TotalValidatorShares.Equal(e.sumValidatorShares(t, huntDenom)))

	// the delegation of a is worth 796.995 tokens, the module reports and accepts 797
	val1, err := e.app.AllianceKeeper.GetAllianceValidator(e.ctx, v1)
	require.NoError(t, err)
	del, found := e.app.AllianceKeeper.GetDelegation(e.ctx, a, v1, huntDenom)
	require.True(t, found)
	require.Equal(t, math.NewInt(797), types.GetDelegationTokens(del, val1, asset).Amount)
	e.undelegate(t, a, v1, 797)

	asset, _ = e.app.AllianceKeeper.GetAssetByDenom(e.ctx, huntDenom)
	sum := e.sumValidatorShares(t, huntDenom)
	fmt.Printf("HUNT1 asset.TotalTokens=%s asset.TotalValidatorShares=%s sum(validator shares)=%s\n", asset.TotalTokens, asset.TotalValidatorShares, sum)
	val2, err := e.app.AllianceKeeper.GetAllianceValidator(e.ctx, v2)
	require.NoError(t, err)
	fmt.Printf("HUNT1 tokens of validator 2 = %s of an asset total of %s\n", val2.TotalTokensWithAsset(asset), asset.TotalTokens)
	require.False(t, asset.TotalValidatorShares.IsNegative())
	require.Truef(t, asset.TotalValidatorShares.Equal(sum),
		"validators' asset shares do not sum to the asset total: asset.TotalValidatorShares=%s sum=%s", asset.TotalValidatorShares, sum)
}

// Same clamp, continued: with the asset total smaller than what the remaining validator holds, a slash by fraction 1
// of that validator (the x/staking hook) drives asset.TotalValidatorShares negative.
func TestHuntAssetShareTotalNegative(t *testing.T) {
	e := huntSetup(t, "0.199", 2, 2)
	a, b := e.users[0], e.users[1]
	v1, v2 := e.vals[0], e.vals[1]
	e.delegate(t, a, v1, 995)
	e.delegate(t, b, v2, 5)
	e.nextBlock(t, 6*time.Minute)
	e.undelegate(t, a, v1, 797)

	err := e.app.StakingKeeper.Hooks().BeforeValidatorSlashed(e.ctx, v2, math.LegacyOneDec())
	require.NoError(t, err)
	asset, _ := e.app.AllianceKeeper.GetAssetByDenom(e.ctx, huntDenom)
	fmt.Printf("HUNT2 asset.TotalValidatorShares=%s\n", asset.TotalValidatorShares)
	require.Falsef(t, asset.TotalValidatorShares.IsNegative(), "negative asset share total %s", asset.TotalValidatorShares)
}

// Clause: when an asset's staked total returns to zero the share records are reset so that dust cannot survive into
// the next staking cycle. The reset only clears ValidatorShares: a dust position on another validator keeps its
// delegation record and the validator's TotalDelegatorShares, and the next cycle cannot use that validator any more.
func TestHuntResetLeavesDelegatorShares(t *testing.T) {
	e := huntSetup(t, "0.99", 2, 3)
	a, b, n := e.users[0], e.users[1], e.users[2]
	v1, v2 := e.vals[0], e.vals[1]

	e.delegate(t, a, v1, 1000)
	e.delegate(t, b, v2, 1)

	// rewards start, the module stakes on the validators
	e.nextBlock(t, 2*time.Minute)

	// validator 2 is slashed by the double sign fraction (5%)
	fraction, err := e.app.SlashingKeeper.SlashFractionDoubleSign(e.ctx)
	require.NoError(t, err)
	require.NoError(t, e.app.StakingKeeper.Hooks().BeforeValidatorSlashed(e.ctx, v2, fraction))

	// one take rate interval: 1001 * 0.01 = 10.01 -> 10 tokens are left
	e.nextBlock(t, 4*time.Minute)
	asset, _ := e.app.AllianceKeeper.GetAssetByDenom(e.ctx, huntDenom)
	require.Equal(t, math.NewInt(10), asset.TotalTokens)

	// a leaves with everything the module reports for it (9.99 + rounder -> 10)
	e.undelegate(t, a, v1, 10)
	asset, _ = e.app.AllianceKeeper.GetAssetByDenom(e.ctx, huntDenom)
	require.True(t, asset.TotalTokens.IsZero())
	require.True(t, asset.TotalValidatorShares.IsZero())
	require.True(t, e.sumValidatorShares(t, huntDenom).IsZero())

	// the staked total is zero: nothing of the finished cycle may be left
	info, _ := e.app.AllianceKeeper.GetAllianceValidatorInfo(e.ctx, v2)
	left := sdk.DecCoins(info.TotalDelegatorShares).AmountOf(huntDenom)
	del, found := e.app.AllianceKeeper.GetDelegation(e.ctx, b, v2, huntDenom)
	fmt.Printf("HUNT3 after reset: validator2.TotalDelegatorShares=%s delegation found=%v shares=%s\n", left, found, del.Shares)

	// next cycle: a new delegator wants to use validator 2
	func() {
		defer func() {
			if r := recover(); r != nil {
				t.Errorf("delegating to validator 2 in the next staking cycle panics: %v", r)
			}
		}()
		_, err := e.ms.Delegate(e.ctx, &types.MsgDelegate{DelegatorAddress: n.String(), ValidatorAddress: v2.String(), Amount: sdk.NewCoin(huntDenom, math.NewInt(5))})
		require.NoError(t, err)
	}()
	require.Truef(t, left.IsZero() && !found, "share records of the finished cycle survive the reset: TotalDelegatorShares=%s delegation=%v", left, found)
}

// Redelegation variant of the clamp: the source validator gives up fewer validator shares (clamped to what it holds)
// than the destination validator receives, the asset total is not touched.
func TestHuntRedelegateRoundUpBreaksAssetShareSum(t *testing.T) {
	e := huntSetup(t, "0.199", 2, 2)
	a, b := e.users[0], e.users[1]
	v1, v2 := e.vals[0], e.vals[1]
	e.delegate(t, a, v1, 995)
	e.delegate(t, b, v2, 5)
	e.nextBlock(t, 6*time.Minute)

	_, err := e.ms.Redelegate(e.ctx, &types.MsgRedelegate{DelegatorAddress: a.String(), ValidatorSrcAddress: v1.String(), ValidatorDstAddress: v2.String(), Amount: sdk.NewCoin(huntDenom, math.NewInt(797))})
	require.NoError(t, err)

	asset, _ := e.app.AllianceKeeper.GetAssetByDenom(e.ctx, huntDenom)
	sum := e.sumValidatorShares(t, huntDenom)
	fmt.Printf("HUNT4 asset.TotalTokens=%s asset.TotalValidatorShares=%s sum(validator shares)=%s\n", asset.TotalTokens, asset.TotalValidatorShares, sum)
	require.Truef(t, asset.TotalValidatorShares.Equal(sum),
		"validators' asset shares do not sum to the asset total: asset.TotalValidatorShares=%s sum=%s", asset.TotalValidatorShares, sum)
}
