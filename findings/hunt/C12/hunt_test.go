package tests_test

import (
	"testing"
	"time"

	"cosmossdk.io/math"
	abcitypes "github.com/cometbft/cometbft/abci/types"
	sdk "github.com/cosmos/cosmos-sdk/types"
	authtypes "github.com/cosmos/cosmos-sdk/x/auth/types"
	minttypes "github.com/cosmos/cosmos-sdk/x/mint/types"
	teststaking "github.com/cosmos/cosmos-sdk/x/staking/testutil"
	stakingtypes "github.com/cosmos/cosmos-sdk/x/staking/types"
	"github.com/stretchr/testify/require"

	test_helpers "github.com/terra-money/alliance/app"
	"github.com/terra-money/alliance/x/alliance"
	"github.com/terra-money/alliance/x/alliance/keeper"
	"github.com/terra-money/alliance/x/alliance/types"
)

// TestHuntZeroShareDelegationsClaimWholeValidator
//
// C12: "At every moment the rewards pool holds at least the sum of what all delegations could claim at
// that moment ... claiming in any order always succeeds."
//
// slashRedelegations can reduce a destination position to exactly zero shares. The delegation record is
// kept (Shares = 0), the destination validator's TotalDelegatorShares for the denom drops to zero, but the
// validator keeps its ValidatorShares (and the asset its TotalTokens). GetDelegationTokens ->
// ConvertNewShareToDecToken returns *all* validator tokens when totalShares is zero, so EVERY zero-share
// delegation on that validator is priced as owning the whole validator position. With two of them the
// reward index (which is normalised by the validator tokens) is paid out twice.
func TestHuntZeroShareDelegationsClaimWholeValidator(t *testing.T) {
	app, ctx := createTestContext(t)
	t0 := time.Now().UTC()
	ctx = ctx.WithBlockTime(t0).WithBlockHeight(1)
	app.AllianceKeeper.InitGenesis(ctx, &types.GenesisState{Params: types.DefaultParams()})
	ms := keeper.NewMsgServerImpl(app.AllianceKeeper)
	qs := keeper.NewQueryServerImpl(app.AllianceKeeper)
	bondDenom, err := app.StakingKeeper.BondDenom(ctx)
	require.NoError(t, err)

	distParams, err := app.DistrKeeper.Params.Get(ctx)
	require.NoError(t, err)
	distParams.CommunityTax = math.LegacyZeroDec()
	require.NoError(t, app.DistrKeeper.Params.Set(ctx, distParams))

	endBlock := func() {
		require.NoError(t, alliance.EndBlocker(ctx, app.AllianceKeeper))
		ctx = ctx.WithBlockHeight(ctx.BlockHeight() + 1).WithBlockTime(ctx.BlockTime().Add(time.Minute))
	}

	// governance creates two alliances
	for _, denom := range []string{AllianceDenom, AllianceDenomTwo} {
		_, err = ms.CreateAlliance(ctx, &types.MsgCreateAlliance{
			Authority:            app.AllianceKeeper.GetAuthority(),
			Denom:                denom,
			RewardWeight:         math.LegacyMustNewDecFromStr("0.1"),
			TakeRate:             math.LegacyZeroDec(),
			RewardChangeRate:     math.LegacyOneDec(),
			RewardChangeInterval: 0,
			RewardWeightRange:    types.RewardWeightRange{Min: math.LegacyZeroDec(), Max: math.LegacyOneDec()},
		})
		require.NoError(t, err)
	}

	addrs := test_helpers.AddTestAddrsIncremental(app, ctx, 6, sdk.NewCoins(
		sdk.NewCoin(AllianceDenom, math.NewInt(1_000_000_000)),
		sdk.NewCoin(AllianceDenomTwo, math.NewInt(1_000_000_000)),
		sdk.NewCoin(bondDenom, math.NewInt(100_000_000)),
	))
	pks := test_helpers.CreateTestPubKeys(2)
	noCommission := stakingtypes.Commission{
		CommissionRates: stakingtypes.CommissionRates{Rate: math.LegacyZeroDec(), MaxRate: math.LegacyZeroDec(), MaxChangeRate: math.LegacyZeroDec()},
		UpdateTime:      t0,
	}
	valAddr1 := sdk.ValAddress(addrs[0])
	_val1 := teststaking.NewValidator(t, valAddr1, pks[0])
	_val1.Commission = noCommission
	test_helpers.RegisterNewValidator(t, app, ctx, _val1)
	valAddr2 := sdk.ValAddress(addrs[1])
	_val2 := teststaking.NewValidator(t, valAddr2, pks[1])
	_val2.Commission = noCommission
	test_helpers.RegisterNewValidator(t, app, ctx, _val2)

	native, d1, d2, e := addrs[2], addrs[3], addrs[4], addrs[5]

	// both validators carry native stake (10 power each)
	for _, va := range []sdk.ValAddress{valAddr1, valAddr2} {
		v, err := app.StakingKeeper.GetValidator(ctx, va)
		require.NoError(t, err)
		_, err = app.StakingKeeper.Delegate(ctx, native, math.NewInt(10_000_000), stakingtypes.Unbonded, v, true)
		require.NoError(t, err)
	}
	endBlock()

	// warm-up is over
	ctx = ctx.WithBlockTime(ctx.BlockTime().Add(app.AllianceKeeper.RewardDelayTime(ctx)).Add(time.Hour))
	endBlock()

	coinX := func(n int64) sdk.Coin { return sdk.NewCoin(AllianceDenom, math.NewInt(n)) }

	// E holds the second alliance on V2, D1 and D2 hold the first alliance on V1
	_, err = ms.Delegate(ctx, &types.MsgDelegate{DelegatorAddress: e.String(), ValidatorAddress: valAddr2.String(), Amount: sdk.NewCoin(AllianceDenomTwo, math.NewInt(100_000_000))})
	require.NoError(t, err)
	_, err = ms.Delegate(ctx, &types.MsgDelegate{DelegatorAddress: d1.String(), ValidatorAddress: valAddr1.String(), Amount: coinX(100_000_000)})
	require.NoError(t, err)
	_, err = ms.Delegate(ctx, &types.MsgDelegate{DelegatorAddress: d2.String(), ValidatorAddress: valAddr1.String(), Amount: coinX(200_000_000)})
	require.NoError(t, err)
	endBlock()

	// D1 then (one block later) D2 redelegate everything V1 -> V2
	_, err = ms.Redelegate(ctx, &types.MsgRedelegate{DelegatorAddress: d1.String(), ValidatorSrcAddress: valAddr1.String(), ValidatorDstAddress: valAddr2.String(), Amount: coinX(100_000_000)})
	require.NoError(t, err)
	endBlock()
	_, err = ms.Redelegate(ctx, &types.MsgRedelegate{DelegatorAddress: d2.String(), ValidatorSrcAddress: valAddr1.String(), ValidatorDstAddress: valAddr2.String(), Amount: coinX(200_000_000)})
	require.NoError(t, err)
	endBlock()

	// both undelegate most of the destination position: 4_000_000 stay each
	_, err = ms.Undelegate(ctx, &types.MsgUndelegate{DelegatorAddress: d1.String(), ValidatorAddress: valAddr2.String(), Amount: coinX(96_000_000)})
	require.NoError(t, err)
	_, err = ms.Undelegate(ctx, &types.MsgUndelegate{DelegatorAddress: d2.String(), ValidatorAddress: valAddr2.String(), Amount: coinX(196_000_000)})
	require.NoError(t, err)
	endBlock()

	// V1 (source of both immature redelegations) is slashed by 5% through x/slashing -> x/staking -> hook
	sval1, err := app.StakingKeeper.GetValidator(ctx, valAddr1)
	require.NoError(t, err)
	require.True(t, sval1.Tokens.IsPositive())
	cons1, err := sval1.GetConsAddr()
	require.NoError(t, err)
	power1 := sval1.GetConsensusPower(app.StakingKeeper.PowerReduction(ctx))
	err = app.SlashingKeeper.Slash(ctx, cons1, math.LegacyMustNewDecFromStr("0.05"), power1, ctx.BlockHeight())
	require.NoError(t, err)
	endBlock()

	// state the chain produced: two zero-share delegations, no delegator shares, but validator tokens remain
	assetX, _ := app.AllianceKeeper.GetAssetByDenom(ctx, AllianceDenom)
	val2, err := app.AllianceKeeper.GetAllianceValidator(ctx, valAddr2)
	require.NoError(t, err)
	del1, found := app.AllianceKeeper.GetDelegation(ctx, d1, valAddr2, AllianceDenom)
	require.True(t, found)
	del2, found := app.AllianceKeeper.GetDelegation(ctx, d2, valAddr2, AllianceDenom)
	require.True(t, found)
	t.Logf("D1 shares %s, D2 shares %s, V2 delegator shares(X) %s, V2 validator shares(X) %s, V2 tokens(X) %s, asset total tokens %s",
		del1.Shares, del2.Shares, val2.TotalDelegationSharesWithDenom(AllianceDenom), val2.ValidatorSharesWithDenom(AllianceDenom),
		val2.TotalTokensWithAsset(assetX), assetX.TotalTokens)
	t.Logf("D1 tokens %s, D2 tokens %s", types.GetDelegationTokens(del1, val2, assetX), types.GetDelegationTokens(del2, val2, assetX))

	// settle everything that accrued so far so that the numbers below only concern the next reward
	for _, c := range []struct {
		del   sdk.AccAddress
		denom string
	}{{d1, AllianceDenom}, {d2, AllianceDenom}, {e, AllianceDenomTwo}} {
		_, err = ms.ClaimDelegationRewards(ctx, &types.MsgClaimDelegationRewards{DelegatorAddress: c.del.String(), ValidatorAddress: valAddr2.String(), Denom: c.denom})
		require.NoError(t, err)
	}
	endBlock()

	// a block reward of 10_000_000 is distributed to V2
	rewardsPool := app.AccountKeeper.GetModuleAddress(types.RewardsPoolName)
	require.NoError(t, app.BankKeeper.MintCoins(ctx, minttypes.ModuleName, sdk.NewCoins(sdk.NewCoin(bondDenom, math.NewInt(10_000_000)))))
	require.NoError(t, app.BankKeeper.SendCoinsFromModuleToModule(ctx, minttypes.ModuleName, authtypes.FeeCollectorName, sdk.NewCoins(sdk.NewCoin(bondDenom, math.NewInt(10_000_000)))))
	sval2, err := app.StakingKeeper.GetValidator(ctx, valAddr2)
	require.NoError(t, err)
	cons2, err := sval2.GetConsAddr()
	require.NoError(t, err)
	require.NoError(t, app.DistrKeeper.AllocateTokens(ctx, 10, []abcitypes.VoteInfo{{Validator: abcitypes.Validator{Address: cons2, Power: 10}}}))
	endBlock()

	// what the pool holds at this moment (after pulling V2's rewards, as every claim does first)
	poolBefore := app.BankKeeper.GetBalance(ctx, rewardsPool, bondDenom).Amount
	{
		cctx, _ := ctx.CacheContext()
		v2, err := app.AllianceKeeper.GetAllianceValidator(cctx, valAddr2)
		require.NoError(t, err)
		_, err = app.AllianceKeeper.ClaimValidatorRewards(cctx, v2)
		require.NoError(t, err)
		poolHolds := app.BankKeeper.GetBalance(cctx, rewardsPool, bondDenom).Amount
		t.Logf("pool before %s, pool after pulling validator rewards %s", poolBefore, poolHolds)

		// what each delegation could claim at this moment (rewards query, each on its own branch)
		sum := math.ZeroInt()
		for _, c := range []struct {
			name  string
			del   sdk.AccAddress
			denom string
		}{{"D1", d1, AllianceDenom}, {"D2", d2, AllianceDenom}, {"E", e, AllianceDenomTwo}} {
			qctx, _ := ctx.CacheContext()
			res, err := qs.AllianceDelegationRewards(qctx, &types.QueryAllianceDelegationRewardsRequest{DelegatorAddr: c.del.String(), ValidatorAddr: valAddr2.String(), Denom: c.denom})
			require.NoError(t, err)
			amt := sdk.NewCoins(res.Rewards...).AmountOf(bondDenom)
			t.Logf("%s can claim %s%s", c.name, amt, bondDenom)
			sum = sum.Add(amt)
		}
		t.Logf("sum of claimable %s vs pool %s", sum, poolHolds)
		if !sum.LTE(poolHolds) {
			t.Errorf("C12 violated: delegations can claim %s but the rewards pool holds only %s", sum, poolHolds)
		}
	}

	// claiming in any order always succeeds
	for _, c := range []struct {
		del   sdk.AccAddress
		denom string
	}{{d1, AllianceDenom}, {d2, AllianceDenom}, {e, AllianceDenomTwo}} {
		_, err = ms.ClaimDelegationRewards(ctx, &types.MsgClaimDelegationRewards{DelegatorAddress: c.del.String(), ValidatorAddress: valAddr2.String(), Denom: c.denom})
		require.NoError(t, err, "C12 violated: claim of %s/%s failed", c.del, c.denom)
	}
}
