package tests_test

import (
	"testing"
	"time"

	"cosmossdk.io/math"
	codectypes "github.com/cosmos/cosmos-sdk/codec/types"
	authtypes "github.com/cosmos/cosmos-sdk/x/auth/types"
	stakingkeeper "github.com/cosmos/cosmos-sdk/x/staking/keeper"
	stakingtypes "github.com/cosmos/cosmos-sdk/x/staking/types"
	"github.com/stretchr/testify/require"

	sdk "github.com/cosmos/cosmos-sdk/types"

	test_helpers "github.com/terra-money/alliance/app"
	"github.com/terra-money/alliance/x/alliance"
	"github.com/terra-money/alliance/x/alliance/keeper"
	"github.com/terra-money/alliance/x/alliance/types"
)

// huntC07Scenario drives the chain only through real entry points:
//   - staking MsgCreateValidator / MsgUndelegate / MsgUpdateParams, staking EndBlocker, staking Slash
//   - alliance MsgCreateAlliance, MsgDelegate, MsgUndelegate, MsgRedelegate, alliance EndBlocker
//
// V is a bonded validator, D is a validator that never enters the active set (MaxValidators = 2).
// A delegator stakes on V, starts an unbonding from V, redelegates a part V -> D and then withdraws
// everything from D again. If removeDst is set, D's operator then withdraws the self delegation and
// x/staking removes D (unbonded + zero shares), while the redelegation record V -> D is still pending.
// Finally V is slashed.
//
// Property C07: the pending unbonding that originated from V must be reduced by exactly
// floor(f * balance) and exactly that amount must be forwarded to the fee collector.
func huntC07Scenario(t *testing.T, removeDst bool) {
	app, ctx := createTestContext(t)
	start := time.Date(2026, 1, 1, 0, 0, 0, 0, time.UTC)
	ctx = ctx.WithBlockTime(start).WithBlockHeight(10)
	bondDenom, err := app.StakingKeeper.BondDenom(ctx)
	require.NoError(t, err)

	stakingMsg := stakingkeeper.NewMsgServerImpl(app.StakingKeeper)
	allianceMsg := keeper.NewMsgServerImpl(app.AllianceKeeper)
	authority := authtypes.NewModuleAddress("gov").String()
	require.Equal(t, authority, app.AllianceKeeper.GetAuthority())

	endBlock := func() {
		require.NoError(t, alliance.EndBlocker(ctx, app.AllianceKeeper))
		_, err := app.StakingKeeper.EndBlocker(ctx)
		require.NoError(t, err)
	}
	nextBlock := func(d time.Duration) {
		ctx = ctx.WithBlockTime(ctx.BlockTime().Add(d)).WithBlockHeight(ctx.BlockHeight() + 1)
	}

	// only two validators fit into the active set: the genesis validator and V
	sp, err := app.StakingKeeper.GetParams(ctx)
	require.NoError(t, err)
	sp.MaxValidators = 2
	_, err = stakingMsg.UpdateParams(ctx, &stakingtypes.MsgUpdateParams{Authority: authority, Params: sp})
	require.NoError(t, err)

	addrs := test_helpers.AddTestAddrsIncremental(app, ctx, 3, sdk.NewCoins(
		sdk.NewCoin(AllianceDenom, math.NewInt(100_000_000)),
		sdk.NewCoin(bondDenom, math.NewInt(100_000_000)),
	))
	pks := test_helpers.CreateTestPubKeys(2)
	opV, opD, user := addrs[0], addrs[1], addrs[2]
	valV, valD := sdk.ValAddress(opV), sdk.ValAddress(opD)

	createValidator := func(op sdk.AccAddress, pkIdx int, amount int64) {
		pkAny, err := codectypes.NewAnyWithValue(pks[pkIdx])
		require.NoError(t, err)
		_, err = stakingMsg.CreateValidator(ctx, &stakingtypes.MsgCreateValidator{
			Description:       stakingtypes.Description{Moniker: "val"},
			Commission:        stakingtypes.CommissionRates{Rate: math.LegacyZeroDec(), MaxRate: math.LegacyOneDec(), MaxChangeRate: math.LegacyZeroDec()},
			MinSelfDelegation: math.OneInt(),
			ValidatorAddress:  sdk.ValAddress(op).String(),
			Pubkey:            pkAny,
			Value:             sdk.NewCoin(bondDenom, math.NewInt(amount)),
		})
		require.NoError(t, err)
	}
	createValidator(opV, 0, 5_000_000)
	createValidator(opD, 1, 500_000) // less than the genesis validator (1_000_000): stays outside the active set

	_, err = allianceMsg.CreateAlliance(ctx, &types.MsgCreateAlliance{
		Authority:            authority,
		Denom:                AllianceDenom,
		RewardWeight:         math.LegacyNewDecWithPrec(5, 1),
		RewardWeightRange:    types.RewardWeightRange{Min: math.LegacyZeroDec(), Max: math.LegacyNewDec(5)},
		TakeRate:             math.LegacyZeroDec(),
		RewardChangeRate:     math.LegacyOneDec(),
		RewardChangeInterval: 0,
	})
	require.NoError(t, err)
	endBlock()

	sV, err := app.StakingKeeper.GetValidator(ctx, valV)
	require.NoError(t, err)
	require.True(t, sV.IsBonded())
	sD, err := app.StakingKeeper.GetValidator(ctx, valD)
	require.NoError(t, err)
	require.True(t, sD.IsUnbonded())

	// the asset leaves its warm-up period (default RewardDelayTime = 7 days)
	nextBlock(8 * 24 * time.Hour)
	endBlock()
	nextBlock(time.Minute)

	// the delegator stakes on V, starts an unbonding from V, redelegates a part V -> D and leaves D again
	_, err = allianceMsg.Delegate(ctx, &types.MsgDelegate{DelegatorAddress: user.String(), ValidatorAddress: valV.String(), Amount: sdk.NewCoin(AllianceDenom, math.NewInt(10_000_000))})
	require.NoError(t, err)
	endBlock()
	nextBlock(time.Minute)

	_, err = allianceMsg.Undelegate(ctx, &types.MsgUndelegate{DelegatorAddress: user.String(), ValidatorAddress: valV.String(), Amount: sdk.NewCoin(AllianceDenom, math.NewInt(2_000_001))})
	require.NoError(t, err)
	_, err = allianceMsg.Redelegate(ctx, &types.MsgRedelegate{DelegatorAddress: user.String(), ValidatorSrcAddress: valV.String(), ValidatorDstAddress: valD.String(), Amount: sdk.NewCoin(AllianceDenom, math.NewInt(3_000_000))})
	require.NoError(t, err)
	endBlock()
	nextBlock(time.Minute)

	_, err = allianceMsg.Undelegate(ctx, &types.MsgUndelegate{DelegatorAddress: user.String(), ValidatorAddress: valD.String(), Amount: sdk.NewCoin(AllianceDenom, math.NewInt(3_000_000))})
	require.NoError(t, err)
	_, found := app.AllianceKeeper.GetDelegation(ctx, user, valD, AllianceDenom)
	require.False(t, found, "nothing is left on D")
	endBlock()
	nextBlock(time.Minute)

	// the module staked on V (rewards started), never on D (not bonded)
	moduleAddr := app.AccountKeeper.GetModuleAddress(types.ModuleName)
	_, err = app.StakingKeeper.GetDelegation(ctx, moduleAddr, valV)
	require.NoError(t, err)
	_, err = app.StakingKeeper.GetDelegation(ctx, moduleAddr, valD)
	require.Error(t, err)

	if removeDst {
		// D's operator withdraws the self delegation: D is unbonded and has no shares left, x/staking removes it
		_, err = stakingMsg.Undelegate(ctx, &stakingtypes.MsgUndelegate{DelegatorAddress: opD.String(), ValidatorAddress: valD.String(), Amount: sdk.NewCoin(bondDenom, math.NewInt(500_000))})
		require.NoError(t, err)
		_, err = app.StakingKeeper.GetValidator(ctx, valD)
		require.ErrorIs(t, err, stakingtypes.ErrNoValidatorFound)
	}
	endBlock()
	nextBlock(time.Minute)

	// state before the slash
	unbondings, err := app.AllianceKeeper.GetUnbondings(ctx, AllianceDenom, user, valV)
	require.NoError(t, err)
	require.Len(t, unbondings, 1)
	require.Equal(t, math.NewInt(2_000_001), unbondings[0].Amount)
	require.True(t, unbondings[0].CompletionTime.After(ctx.BlockTime()), "the unbonding from V is still pending")
	feeCollector := app.AccountKeeper.GetModuleAddress(authtypes.FeeCollectorName)
	feeBefore := app.BankKeeper.GetBalance(ctx, feeCollector, AllianceDenom).Amount

	// x/staking slashes V (the way x/slashing / x/evidence call it); reproduce the effective fraction it hands to the hook
	sV, err = app.StakingKeeper.GetValidator(ctx, valV)
	require.NoError(t, err)
	require.True(t, sV.IsBonded())
	consAddr, err := sV.GetConsAddr()
	require.NoError(t, err)
	power := sV.GetConsensusPower(app.StakingKeeper.PowerReduction(ctx))
	slashFactor := math.LegacyNewDecWithPrec(5, 2)
	tokensToBurn := math.MinInt(slashFactor.MulInt(app.StakingKeeper.TokensFromConsensusPower(ctx, power)).TruncateInt(), sV.Tokens)
	f := math.LegacyNewDecFromInt(tokensToBurn).QuoRoundUp(math.LegacyNewDecFromInt(sV.Tokens))
	require.True(t, f.IsPositive())

	allianceSharesBefore := func() math.LegacyDec {
		v, err := app.AllianceKeeper.GetAllianceValidator(ctx, valV)
		require.NoError(t, err)
		return v.ValidatorSharesWithDenom(AllianceDenom)
	}()

	// diagnostic only (discarded cache context): what the alliance callback returns to x/staking, which only logs it
	dryCtx, _ := ctx.CacheContext()
	t.Logf("alliance slash callback (dry run) returns: %v", app.AllianceKeeper.StakingHooks().BeforeValidatorSlashed(dryCtx, valV, f))

	_, err = app.StakingKeeper.Slash(ctx, consAddr, ctx.BlockHeight(), power, slashFactor)
	require.NoError(t, err)

	// the bonded position on V was slashed by f (this part of the callback ran)
	vAfter, err := app.AllianceKeeper.GetAllianceValidator(ctx, valV)
	require.NoError(t, err)
	require.Equal(t, allianceSharesBefore.Sub(allianceSharesBefore.Mul(f)), vAfter.ValidatorSharesWithDenom(AllianceDenom))

	// C07: the pending unbonding from V is reduced by exactly floor(f * balance), forwarded to the fee collector
	expectedSlash := f.MulInt(math.NewInt(2_000_001)).TruncateInt()
	require.True(t, expectedSlash.IsPositive())
	unbondings, err = app.AllianceKeeper.GetUnbondings(ctx, AllianceDenom, user, valV)
	require.NoError(t, err)
	require.Len(t, unbondings, 1)
	require.Equal(t, math.NewInt(2_000_001).Sub(expectedSlash).String(), unbondings[0].Amount.String(),
		"pending unbonding from the slashed validator must be reduced by floor(f*balance) (f=%s)", f)
	feeAfter := app.BankKeeper.GetBalance(ctx, feeCollector, AllianceDenom).Amount
	require.Equal(t, expectedSlash.String(), feeAfter.Sub(feeBefore).String(), "slashed amount must reach the fee collector")
}

// Control: D still exists -> the unbonding from V is slashed exactly (passes on the unmodified code).
func TestHuntC07ControlDstValidatorExists(t *testing.T) {
	huntC07Scenario(t, false)
}

// Defect: D was removed by x/staking while the redelegation V -> D is pending -> the slash callback aborts,
// x/staking swallows the error, the unbonding from V is not slashed at all.
func TestHuntC07RemovedRedelegationDestinationBlocksSlash(t *testing.T) {
	huntC07Scenario(t, true)
}
