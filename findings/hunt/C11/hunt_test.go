package tests_test

import (
	"testing"
	"time"

	"cosmossdk.io/math"

	test_helpers "github.com/terra-money/alliance/app"
	"github.com/terra-money/alliance/x/alliance"
	"github.com/terra-money/alliance/x/alliance/keeper"
	"github.com/terra-money/alliance/x/alliance/types"

	sdk "github.com/cosmos/cosmos-sdk/types"
	authtypes "github.com/cosmos/cosmos-sdk/x/auth/types"
	banktypes "github.com/cosmos/cosmos-sdk/x/bank/types"
	govtypes "github.com/cosmos/cosmos-sdk/x/gov/types"
	teststaking "github.com/cosmos/cosmos-sdk/x/staking/testutil"
	stakingtypes "github.com/cosmos/cosmos-sdk/x/staking/types"
	"github.com/stretchr/testify/require"
)

// huntModuleStake returns the value of ALL staking delegations held by the alliance module account
// (whatever the status of the validator).
func huntModuleStake(t *testing.T, app *test_helpers.App, ctx sdk.Context) math.Int {
	t.Helper()
	moduleAddr := app.AccountKeeper.GetModuleAddress(types.ModuleName)
	total := math.LegacyZeroDec()
	err := app.StakingKeeper.IterateDelegatorDelegations(ctx, moduleAddr, func(d stakingtypes.Delegation) bool {
		valAddr, err := sdk.ValAddressFromBech32(d.ValidatorAddress)
		require.NoError(t, err)
		val, err := app.StakingKeeper.GetValidator(ctx, valAddr)
		require.NoError(t, err)
		total = total.Add(val.TokensFromShares(d.Shares))
		return false
	})
	require.NoError(t, err)
	return total.TruncateInt()
}

// TestHuntSupplyQueriesWithUnbondingValidator
// Clause: "The bank supply queries report the staking-denom supply net of the [virtual] alliance stake" /
// "the staking-denom supply net of that stake is unchanged".
// No native coin is minted or burned in this test, hence SupplyOf(bondDenom) / TotalSupply must always report the
// same number. Once a validator that carries module stake leaves the bonded set (jailed), the virtual tokens that
// the module minted for it sit in the not-bonded pool, GetAllianceBondedAmount skips them and both bank supply
// queries report them as if they were real native supply.
func TestHuntSupplyQueriesWithUnbondingValidator(t *testing.T) {
	var err error
	app, ctx := createTestContext(t)
	bondDenom, err := app.StakingKeeper.BondDenom(ctx)
	require.NoError(t, err)
	startTime := time.Now()
	ctx = ctx.WithBlockTime(startTime).WithBlockHeight(1)
	app.AllianceKeeper.InitGenesis(ctx, &types.GenesisState{
		Params: types.DefaultParams(),
		Assets: []types.AllianceAsset{
			{
				Denom:                AllianceDenom,
				RewardWeight:         math.LegacyMustNewDecFromStr("0.1"),
				TakeRate:             math.LegacyNewDec(0),
				TotalTokens:          math.ZeroInt(),
				TotalValidatorShares: math.LegacyZeroDec(),
				RewardChangeRate:     math.LegacyOneDec(),
				RewardWeightRange:    types.RewardWeightRange{Min: math.LegacyZeroDec(), Max: math.LegacyNewDec(5)},
			},
			{
				Denom:                AllianceDenomTwo,
				RewardWeight:         math.LegacyMustNewDecFromStr("0.5"),
				TakeRate:             math.LegacyNewDec(0),
				TotalTokens:          math.ZeroInt(),
				TotalValidatorShares: math.LegacyZeroDec(),
				RewardChangeRate:     math.LegacyOneDec(),
				RewardWeightRange:    types.RewardWeightRange{Min: math.LegacyZeroDec(), Max: math.LegacyNewDec(5)},
			},
		},
	})

	addrs := test_helpers.AddTestAddrsIncremental(app, ctx, 5, sdk.NewCoins(
		sdk.NewCoin(bondDenom, math.NewInt(10_000_000)),
		sdk.NewCoin(AllianceDenom, math.NewInt(50_000_000)),
		sdk.NewCoin(AllianceDenomTwo, math.NewInt(50_000_000)),
	))
	pks := test_helpers.CreateTestPubKeys(2)

	// Increase the stake on genesis validator
	delegations, err := app.StakingKeeper.GetAllDelegations(ctx)
	require.NoError(t, err)
	require.Len(t, delegations, 1)
	valAddr0, err := sdk.ValAddressFromBech32(delegations[0].ValidatorAddress)
	require.NoError(t, err)
	val0, _ := app.StakingKeeper.GetValidator(ctx, valAddr0)
	_, err = app.StakingKeeper.Delegate(ctx, addrs[4], math.NewInt(9_000_000), stakingtypes.Unbonded, val0, true)
	require.NoError(t, err)

	valAddr1 := sdk.ValAddress(addrs[0])
	_val1 := teststaking.NewValidator(t, valAddr1, pks[0])
	_val1.Description.Moniker = "val1"
	test_helpers.RegisterNewValidator(t, app, ctx, _val1)
	_, err = app.StakingKeeper.Delegate(ctx, addrs[0], math.NewInt(1_000_000), stakingtypes.Unbonded, _val1, true)
	require.NoError(t, err)

	valAddr2 := sdk.ValAddress(addrs[1])
	_val2 := teststaking.NewValidator(t, valAddr2, pks[1])
	_val2.Description.Moniker = "val2"
	test_helpers.RegisterNewValidator(t, app, ctx, _val2)
	_, err = app.StakingKeeper.Delegate(ctx, addrs[1], math.NewInt(1_000_000), stakingtypes.Unbonded, _val2, true)
	require.NoError(t, err)
	_, err = app.StakingKeeper.ApplyAndReturnValidatorSetUpdates(ctx)
	require.NoError(t, err)

	supplyOf := func(c sdk.Context) math.Int {
		res, err := app.BankKeeper.SupplyOf(c, &banktypes.QuerySupplyOfRequest{Denom: bondDenom})
		require.NoError(t, err)
		return res.Amount.Amount
	}
	totalSupplyOf := func(c sdk.Context) math.Int {
		res, err := app.BankKeeper.TotalSupply(c, &banktypes.QueryTotalSupplyRequest{})
		require.NoError(t, err)
		return res.Supply.AmountOf(bondDenom)
	}

	// Native supply before the alliance module did anything: everything is real
	nativeSupply := app.BankKeeper.GetSupply(ctx, bondDenom).Amount
	require.True(t, huntModuleStake(t, app, ctx).IsZero())
	require.Equal(t, nativeSupply, supplyOf(ctx))
	require.Equal(t, nativeSupply, totalSupplyOf(ctx))

	// Users delegate through the msg server
	msgServer := keeper.NewMsgServerImpl(app.AllianceKeeper)
	user1 := addrs[2]
	user2 := addrs[3]
	for _, d := range []struct {
		del sdk.AccAddress
		val sdk.ValAddress
		amt sdk.Coin
	}{
		{user1, valAddr1, sdk.NewCoin(AllianceDenom, math.NewInt(20_000_000))},
		{user1, valAddr2, sdk.NewCoin(AllianceDenom, math.NewInt(10_000_000))},
		{user2, valAddr1, sdk.NewCoin(AllianceDenomTwo, math.NewInt(10_000_000))},
		{user2, valAddr2, sdk.NewCoin(AllianceDenomTwo, math.NewInt(10_000_000))},
	} {
		_, err = msgServer.Delegate(ctx, types.NewMsgDelegate(d.del.String(), d.val.String(), d.amt))
		require.NoError(t, err)
	}

	// Block 1 ends: staking first, then alliance (order of app.go)
	_, err = app.StakingKeeper.EndBlocker(ctx)
	require.NoError(t, err)
	require.NoError(t, alliance.EndBlocker(ctx, app.AllianceKeeper))

	// All validators bonded: the queries hide the virtual stake (allow 1 unit per validator for truncation)
	minted := app.BankKeeper.GetSupply(ctx, bondDenom).Amount.Sub(nativeSupply)
	require.True(t, minted.IsPositive())
	require.True(t, supplyOf(ctx).Sub(nativeSupply).Abs().LTE(math.NewInt(3)), "supplyOf %s native %s", supplyOf(ctx), nativeSupply)
	require.True(t, totalSupplyOf(ctx).Sub(nativeSupply).Abs().LTE(math.NewInt(3)))
	t.Logf("native supply %s, virtual tokens minted %s, SupplyOf reports %s", nativeSupply, minted, supplyOf(ctx))

	// Block 2: val2 is jailed (what x/slashing does for downtime), staking end blocker moves it to unbonding,
	// alliance end blocker rebalances
	ctx = ctx.WithBlockHeight(2).WithBlockTime(startTime.Add(5 * time.Second))
	val2, err := app.StakingKeeper.GetValidator(ctx, valAddr2)
	require.NoError(t, err)
	cons2, err := val2.GetConsAddr()
	require.NoError(t, err)
	require.NoError(t, app.SlashingKeeper.Jail(ctx, cons2))
	_, err = app.StakingKeeper.EndBlocker(ctx)
	require.NoError(t, err)
	require.NoError(t, alliance.EndBlocker(ctx, app.AllianceKeeper))

	val2, err = app.StakingKeeper.GetValidator(ctx, valAddr2)
	require.NoError(t, err)
	require.Equal(t, stakingtypes.Unbonding, val2.Status)

	// First clause still holds: real supply = bank supply - whole module stake is unchanged
	moduleStake := huntModuleStake(t, app, ctx)
	bankSupply := app.BankKeeper.GetSupply(ctx, bondDenom).Amount
	require.True(t, bankSupply.Sub(moduleStake).Sub(nativeSupply).Abs().LTE(math.NewInt(3)),
		"bank supply %s - module stake %s != native %s", bankSupply, moduleStake, nativeSupply)

	moduleAddr := app.AccountKeeper.GetModuleAddress(types.ModuleName)
	del2, err := app.StakingKeeper.GetDelegation(ctx, moduleAddr, valAddr2)
	require.NoError(t, err)
	stuck := val2.TokensFromShares(del2.Shares).TruncateInt()
	t.Logf("module stake on unbonding val2 (virtual tokens in the not-bonded pool): %s", stuck)
	t.Logf("bank supply %s, module stake %s, SupplyOf reports %s, TotalSupply reports %s (native %s)",
		bankSupply, moduleStake, supplyOf(ctx), totalSupplyOf(ctx), nativeSupply)

	// Property: no native token was minted/burned, the queries must still report the native supply
	require.True(t, supplyOf(ctx).Sub(nativeSupply).Abs().LTE(math.NewInt(3)),
		"SupplyOf(%s) reports %s but the native supply is %s: %s virtual tokens on the unbonding validator are reported as supply",
		bondDenom, supplyOf(ctx), nativeSupply, supplyOf(ctx).Sub(nativeSupply))
	require.True(t, totalSupplyOf(ctx).Sub(nativeSupply).Abs().LTE(math.NewInt(3)),
		"TotalSupply reports %s but the native supply is %s", totalSupplyOf(ctx), nativeSupply)
}

// TestHuntBondDenomAsAllianceAsset
// Clause: "the staking-denom supply net of that stake is unchanged by every alliance operation".
// MsgCreateAlliance (governance) accepts the staking denom itself as alliance asset. Deposits of that alliance are
// held in the module account, and CompleteUnbondings burns every staking-denom coin of the module account at the end
// of each block: the user's deposit is destroyed (native supply falls) and the later undelegation can never be paid.
func TestHuntBondDenomAsAllianceAsset(t *testing.T) {
	app, ctx := createTestContext(t)
	bondDenom, err := app.StakingKeeper.BondDenom(ctx)
	require.NoError(t, err)
	startTime := time.Now()
	ctx = ctx.WithBlockTime(startTime).WithBlockHeight(1)
	app.AllianceKeeper.InitGenesis(ctx, &types.GenesisState{Params: types.DefaultParams()})

	addrs := test_helpers.AddTestAddrsIncremental(app, ctx, 1, sdk.NewCoins(sdk.NewCoin(bondDenom, math.NewInt(10_000_000))))
	user := addrs[0]
	delegations, err := app.StakingKeeper.GetAllDelegations(ctx)
	require.NoError(t, err)
	valAddr0, err := sdk.ValAddressFromBech32(delegations[0].ValidatorAddress)
	require.NoError(t, err)

	msgServer := keeper.NewMsgServerImpl(app.AllianceKeeper)
	_, err = msgServer.CreateAlliance(ctx, &types.MsgCreateAlliance{
		Authority:            authtypes.NewModuleAddress(govtypes.ModuleName).String(),
		Denom:                bondDenom,
		RewardWeight:         math.LegacyMustNewDecFromStr("0.1"),
		TakeRate:             math.LegacyZeroDec(),
		RewardChangeRate:     math.LegacyOneDec(),
		RewardChangeInterval: 0,
		RewardWeightRange:    types.RewardWeightRange{Min: math.LegacyZeroDec(), Max: math.LegacyOneDec()},
	})
	require.NoError(t, err, "the handler accepts the staking denom")

	moduleAddr := app.AccountKeeper.GetModuleAddress(types.ModuleName)
	netSupply := func(c sdk.Context) math.Int {
		return app.BankKeeper.GetSupply(c, bondDenom).Amount.Sub(huntModuleStake(t, app, c))
	}
	before := netSupply(ctx)

	_, err = msgServer.Delegate(ctx, types.NewMsgDelegate(user.String(), valAddr0.String(), sdk.NewCoin(bondDenom, math.NewInt(5_000_000))))
	require.NoError(t, err)
	require.Equal(t, before, netSupply(ctx))
	require.Equal(t, math.NewInt(5_000_000), app.BankKeeper.GetBalance(ctx, moduleAddr, bondDenom).Amount)

	_, err = app.StakingKeeper.EndBlocker(ctx)
	require.NoError(t, err)
	require.NoError(t, alliance.EndBlocker(ctx, app.AllianceKeeper))

	after := netSupply(ctx)
	t.Logf("net staking-denom supply before %s, after the end blocker %s, module balance %s", before, after,
		app.BankKeeper.GetBalance(ctx, moduleAddr, bondDenom))
	require.True(t, after.Sub(before).Abs().LTE(math.NewInt(1)),
		"net staking-denom supply changed from %s to %s (%s): the deposit was burned", before, after, after.Sub(before))
}

// TestHuntVirtualStakeStuckOnUnbondedValidator
// Same root cause as TestHuntSupplyQueriesWithUnbondingValidator, permanent variant: after the validator left the
// bonded set every alliance delegator undelegates from it and the unbonding periods pass. Rebalancing never touches
// a validator that is not bonded, so the virtual tokens minted for it stay in the not-bonded pool although no
// alliance position is left on that validator, and the supply queries keep reporting them as native supply.
func TestHuntVirtualStakeStuckOnUnbondedValidator(t *testing.T) {
	var err error
	app, ctx := createTestContext(t)
	bondDenom, err := app.StakingKeeper.BondDenom(ctx)
	require.NoError(t, err)
	startTime := time.Now()
	ctx = ctx.WithBlockTime(startTime).WithBlockHeight(1)
	app.AllianceKeeper.InitGenesis(ctx, &types.GenesisState{
		Params: types.DefaultParams(),
		Assets: []types.AllianceAsset{
			{
				Denom:                AllianceDenom,
				RewardWeight:         math.LegacyMustNewDecFromStr("0.5"),
				TakeRate:             math.LegacyNewDec(0),
				TotalTokens:          math.ZeroInt(),
				TotalValidatorShares: math.LegacyZeroDec(),
				RewardChangeRate:     math.LegacyOneDec(),
				RewardWeightRange:    types.RewardWeightRange{Min: math.LegacyZeroDec(), Max: math.LegacyNewDec(5)},
			},
		},
	})
	addrs := test_helpers.AddTestAddrsIncremental(app, ctx, 3, sdk.NewCoins(
		sdk.NewCoin(bondDenom, math.NewInt(10_000_000)),
		sdk.NewCoin(AllianceDenom, math.NewInt(50_000_000)),
	))
	pks := test_helpers.CreateTestPubKeys(1)
	delegations, err := app.StakingKeeper.GetAllDelegations(ctx)
	require.NoError(t, err)
	valAddr0, err := sdk.ValAddressFromBech32(delegations[0].ValidatorAddress)
	require.NoError(t, err)
	val0, _ := app.StakingKeeper.GetValidator(ctx, valAddr0)
	_, err = app.StakingKeeper.Delegate(ctx, addrs[2], math.NewInt(9_000_000), stakingtypes.Unbonded, val0, true)
	require.NoError(t, err)

	valAddr1 := sdk.ValAddress(addrs[0])
	_val1 := teststaking.NewValidator(t, valAddr1, pks[0])
	test_helpers.RegisterNewValidator(t, app, ctx, _val1)
	_, err = app.StakingKeeper.Delegate(ctx, addrs[0], math.NewInt(1_000_000), stakingtypes.Unbonded, _val1, true)
	require.NoError(t, err)
	_, err = app.StakingKeeper.ApplyAndReturnValidatorSetUpdates(ctx)
	require.NoError(t, err)

	nativeSupply := app.BankKeeper.GetSupply(ctx, bondDenom).Amount
	supplyOf := func(c sdk.Context) math.Int {
		res, err := app.BankKeeper.SupplyOf(c, &banktypes.QuerySupplyOfRequest{Denom: bondDenom})
		require.NoError(t, err)
		return res.Amount.Amount
	}
	endBlock := func(c sdk.Context) {
		_, err := app.StakingKeeper.EndBlocker(c)
		require.NoError(t, err)
		require.NoError(t, alliance.EndBlocker(c, app.AllianceKeeper))
	}

	msgServer := keeper.NewMsgServerImpl(app.AllianceKeeper)
	user := addrs[1]
	_, err = msgServer.Delegate(ctx, types.NewMsgDelegate(user.String(), valAddr0.String(), sdk.NewCoin(AllianceDenom, math.NewInt(10_000_000))))
	require.NoError(t, err)
	_, err = msgServer.Delegate(ctx, types.NewMsgDelegate(user.String(), valAddr1.String(), sdk.NewCoin(AllianceDenom, math.NewInt(10_000_000))))
	require.NoError(t, err)
	endBlock(ctx)
	require.True(t, supplyOf(ctx).Sub(nativeSupply).Abs().LTE(math.NewInt(2)))

	// val1 is jailed
	ctx = ctx.WithBlockHeight(2).WithBlockTime(startTime.Add(5 * time.Second))
	val1, err := app.StakingKeeper.GetValidator(ctx, valAddr1)
	require.NoError(t, err)
	cons1, err := val1.GetConsAddr()
	require.NoError(t, err)
	require.NoError(t, app.SlashingKeeper.Jail(ctx, cons1))
	endBlock(ctx)

	// the delegator leaves val1 completely
	ctx = ctx.WithBlockHeight(3).WithBlockTime(startTime.Add(10 * time.Second))
	_, err = msgServer.Undelegate(ctx, types.NewMsgUndelegate(user.String(), valAddr1.String(), sdk.NewCoin(AllianceDenom, math.NewInt(10_000_000))))
	require.NoError(t, err)
	endBlock(ctx)

	// all unbonding periods are over
	unbondingTime, err := app.StakingKeeper.UnbondingTime(ctx)
	require.NoError(t, err)
	ctx = ctx.WithBlockHeight(4).WithBlockTime(startTime.Add(unbondingTime).Add(time.Minute))
	endBlock(ctx)
	ctx = ctx.WithBlockHeight(5).WithBlockTime(ctx.BlockTime().Add(5 * time.Second))
	endBlock(ctx)

	require.Equal(t, math.NewInt(50_000_000), app.BankKeeper.GetBalance(ctx, user, AllianceDenom).Amount.Add(math.NewInt(10_000_000)))
	info, _ := app.AllianceKeeper.GetAllianceValidatorInfo(ctx, valAddr1)
	require.True(t, sdk.DecCoins(info.ValidatorShares).IsZero(), "no alliance position left on val1")

	val1, err = app.StakingKeeper.GetValidator(ctx, valAddr1)
	require.NoError(t, err)
	require.Equal(t, stakingtypes.Unbonded, val1.Status)
	moduleAddr := app.AccountKeeper.GetModuleAddress(types.ModuleName)
	stuck := math.ZeroInt()
	if del, err := app.StakingKeeper.GetDelegation(ctx, moduleAddr, valAddr1); err == nil {
		stuck = val1.TokensFromShares(del.Shares).TruncateInt()
	}
	t.Logf("module stake left on unbonded val1 without any alliance position: %s; SupplyOf reports %s, native supply %s",
		stuck, supplyOf(ctx), nativeSupply)
	require.True(t, supplyOf(ctx).Sub(nativeSupply).Abs().LTE(math.NewInt(2)),
		"SupplyOf reports %s, native supply is %s: %s virtual tokens stuck on the unbonded validator are reported as supply",
		supplyOf(ctx), nativeSupply, supplyOf(ctx).Sub(nativeSupply))
}
