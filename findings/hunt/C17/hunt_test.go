package tests_test

import (
	"fmt"
	"runtime/debug"
	"strings"
	"testing"
	"time"

	"cosmossdk.io/math"

	abcitypes "github.com/cometbft/cometbft/abci/types"
	sdk "github.com/cosmos/cosmos-sdk/types"
	authtypes "github.com/cosmos/cosmos-sdk/x/auth/types"
	minttypes "github.com/cosmos/cosmos-sdk/x/mint/types"
	teststaking "github.com/cosmos/cosmos-sdk/x/staking/testutil"
	stakingtypes "github.com/cosmos/cosmos-sdk/x/staking/types"
	"github.com/stretchr/testify/require"

	test_helpers "github.com/terra-money/alliance/app"
	"github.com/terra-money/alliance/x/alliance"
	"github.com/terra-money/alliance/x/alliance/keeper"
	"github.com/terra-money/alliance/x/alliance/types"
)

// huntEndBlock runs the module's real end blocker and converts a panic into an error,
// C17: it must neither return an error nor panic.
func huntEndBlock(ctx sdk.Context, app *test_helpers.App) (err error) {
	defer func() {
		if r := recover(); r != nil {
			err = fmt.Errorf("END BLOCKER PANIC: %v\n%s", r, huntFrames())
		}
	}()
	return alliance.EndBlocker(ctx, app.AllianceKeeper)
}

// huntFrames lists the alliance keeper frames of the panicking stack
func huntFrames() string {
	out := ""
	for _, l := range strings.Split(string(debug.Stack()), "\n") {
		if strings.Contains(l, "alliance/x/alliance/keeper.") || strings.Contains(l, "alliance/x/alliance/keeper/") || strings.Contains(l, "LegacyDec") {
			out += strings.TrimSpace(l) + "\n"
		}
	}
	return out
}

func huntSetup(t *testing.T) (*test_helpers.App, sdk.Context, types.MsgServer, string) {
	app, ctx := createTestContext(t)
	ctx = ctx.WithBlockTime(time.Now().UTC()).WithBlockHeight(1)
	app.AllianceKeeper.InitGenesis(ctx, &types.GenesisState{
		Params: types.DefaultParams(),
		Assets: []types.AllianceAsset{},
	})
	ms := keeper.NewMsgServerImpl(app.AllianceKeeper)
	return app, ctx, ms, app.AllianceKeeper.GetAuthority()
}

// Defect 1: a dust position (a few base units out of >= 1e18) on a validator without other alliance stake makes
// AddAssetsToRewardPool divide by zero; the rebalancing step of the end blocker reaches it through ClaimValidatorRewards.
func TestHuntDustPositionDivisionByZeroInEndBlock(t *testing.T) {
	app, ctx, ms, authority := huntSetup(t)
	bondDenom, err := app.StakingKeeper.BondDenom(ctx)
	require.NoError(t, err)

	distParams, err := app.DistrKeeper.Params.Get(ctx)
	require.NoError(t, err)
	distParams.CommunityTax = math.LegacyZeroDec()
	require.NoError(t, app.DistrKeeper.Params.Set(ctx, distParams))

	e18 := math.NewIntWithDecimal(1, 18)
	e22 := math.NewIntWithDecimal(1, 22)
	addrs := test_helpers.AddTestAddrsIncremental(app, ctx, 5, sdk.NewCoins(
		sdk.NewCoin(bondDenom, e22.MulRaw(3)),
		sdk.NewCoin(AllianceDenom, e18.MulRaw(10)),
	))
	whale, attacker, nativeStaker := addrs[2], addrs[3], addrs[4]

	// val1: the genesis validator, 1e22 base units of native stake (10'000 tokens of an 18 decimals coin)
	delegations, err := app.StakingKeeper.GetAllDelegations(ctx)
	require.NoError(t, err)
	valAddr1, err := sdk.ValAddressFromBech32(delegations[0].ValidatorAddress)
	require.NoError(t, err)
	sval1, err := app.StakingKeeper.GetValidator(ctx, valAddr1)
	require.NoError(t, err)
	_, err = app.StakingKeeper.Delegate(ctx, nativeStaker, e22, stakingtypes.Unbonded, sval1, true)
	require.NoError(t, err)

	// val2: a second bonded validator with 1e18 native stake and no alliance stake yet
	pks := test_helpers.CreateTestPubKeys(1)
	valAddr2 := sdk.ValAddress(addrs[1])
	sval2 := teststaking.NewValidator(t, valAddr2, pks[0])
	sval2.Commission = stakingtypes.Commission{CommissionRates: stakingtypes.CommissionRates{
		Rate: math.LegacyZeroDec(), MaxRate: math.LegacyZeroDec(), MaxChangeRate: math.LegacyZeroDec(),
	}, UpdateTime: ctx.BlockTime()}
	test_helpers.RegisterNewValidator(t, app, ctx, sval2)
	sval2, err = app.StakingKeeper.GetValidator(ctx, valAddr2)
	require.NoError(t, err)
	_, err = app.StakingKeeper.Delegate(ctx, addrs[1], e18, stakingtypes.Unbonded, sval2, true)
	require.NoError(t, err)

	// Governance: an ordinary alliance, weight 0.1, no take rate, no decay
	_, err = ms.CreateAlliance(ctx, &types.MsgCreateAlliance{
		Authority:            authority,
		Denom:                AllianceDenom,
		RewardWeight:         math.LegacyMustNewDecFromStr("0.1"),
		RewardWeightRange:    types.RewardWeightRange{Min: math.LegacyZeroDec(), Max: math.LegacyOneDec()},
		TakeRate:             math.LegacyZeroDec(),
		RewardChangeRate:     math.LegacyOneDec(),
		RewardChangeInterval: 0,
	})
	require.NoError(t, err)

	// Users: 1e18 base units (one token) on val1, 5 base units on val2
	_, err = ms.Delegate(ctx, &types.MsgDelegate{DelegatorAddress: whale.String(), ValidatorAddress: valAddr1.String(), Amount: sdk.NewCoin(AllianceDenom, e18)})
	require.NoError(t, err)
	_, err = ms.Delegate(ctx, &types.MsgDelegate{DelegatorAddress: attacker.String(), ValidatorAddress: valAddr2.String(), Amount: sdk.NewCoin(AllianceDenom, math.NewInt(5))})
	require.NoError(t, err)
	require.NoError(t, huntEndBlock(ctx, app))

	// Rewards start, first rebalancing: the module stakes on both validators
	asset, _ := app.AllianceKeeper.GetAssetByDenom(ctx, AllianceDenom)
	ctx = ctx.WithBlockTime(asset.RewardStartTime.Add(time.Second)).WithBlockHeight(ctx.BlockHeight() + 1)
	require.NoError(t, huntEndBlock(ctx, app))
	moduleAddr := app.AccountKeeper.GetModuleAddress(types.ModuleName)
	modDel2, err := app.StakingKeeper.GetDelegation(ctx, moduleAddr, valAddr2)
	require.NoError(t, err, "module must have staked on val2")
	t.Logf("module stake on val2: %s shares", modDel2.Shares)

	// Next block: x/distribution allocates the block rewards (as its begin blocker does)
	ctx = ctx.WithBlockHeight(ctx.BlockHeight() + 1).WithBlockTime(ctx.BlockTime().Add(5 * time.Second))
	fees := sdk.NewCoins(sdk.NewCoin(bondDenom, math.NewIntWithDecimal(1, 20)))
	require.NoError(t, app.BankKeeper.MintCoins(ctx, minttypes.ModuleName, fees))
	require.NoError(t, app.BankKeeper.SendCoinsFromModuleToModule(ctx, minttypes.ModuleName, authtypes.FeeCollectorName, fees))
	sval1, _ = app.StakingKeeper.GetValidator(ctx, valAddr1)
	sval2, _ = app.StakingKeeper.GetValidator(ctx, valAddr2)
	cons1, _ := sval1.GetConsAddr()
	cons2, _ := sval2.GetConsAddr()
	p1 := sval1.ConsensusPower(app.StakingKeeper.PowerReduction(ctx))
	p2 := sval2.ConsensusPower(app.StakingKeeper.PowerReduction(ctx))
	require.NoError(t, app.DistrKeeper.AllocateTokens(ctx, p1+p2, []abcitypes.VoteInfo{
		{Validator: abcitypes.Validator{Address: cons1, Power: p1}},
		{Validator: abcitypes.Validator{Address: cons2, Power: p2}},
	}))

	// Somebody stakes more native tokens (staking hook queues a rebalancing)
	_, err = app.StakingKeeper.Delegate(ctx, nativeStaker, e22, stakingtypes.Unbonded, sval1, true)
	require.NoError(t, err)

	// C17: end-of-block processing never fails
	err = huntEndBlock(ctx, app)
	require.NoError(t, err, "C17 violated: end blocker failed in a state reached through MsgDelegate only")
}

// Defect 2: CreateAlliance accepts the staking bond denom as alliance denom. CompleteUnbondings burns the module
// account's whole bond denom balance every block (the "virtual" staking tokens), i.e. the users' deposits, and the
// matured undelegation (or the take rate transfer) then fails with insufficient funds.
func TestHuntBondDenomAsAllianceDenom(t *testing.T) {
	app, ctx, ms, authority := huntSetup(t)
	bondDenom, err := app.StakingKeeper.BondDenom(ctx)
	require.NoError(t, err)
	addrs := test_helpers.AddTestAddrsIncremental(app, ctx, 2, sdk.NewCoins(sdk.NewCoin(bondDenom, math.NewInt(10_000_000))))
	user := addrs[1]
	delegations, err := app.StakingKeeper.GetAllDelegations(ctx)
	require.NoError(t, err)
	valAddr := delegations[0].ValidatorAddress

	_, err = ms.CreateAlliance(ctx, &types.MsgCreateAlliance{
		Authority:            authority,
		Denom:                bondDenom,
		RewardWeight:         math.LegacyMustNewDecFromStr("0.1"),
		RewardWeightRange:    types.RewardWeightRange{Min: math.LegacyZeroDec(), Max: math.LegacyOneDec()},
		TakeRate:             math.LegacyZeroDec(),
		RewardChangeRate:     math.LegacyOneDec(),
		RewardChangeInterval: 0,
	})
	if err != nil {
		t.Skipf("handler rejects the bond denom (%s): property holds for this parameter", err)
	}

	_, err = ms.Delegate(ctx, &types.MsgDelegate{DelegatorAddress: user.String(), ValidatorAddress: valAddr, Amount: sdk.NewCoin(bondDenom, math.NewInt(1_000_000))})
	require.NoError(t, err)
	require.NoError(t, huntEndBlock(ctx, app))

	ctx = ctx.WithBlockHeight(2).WithBlockTime(ctx.BlockTime().Add(5 * time.Second))
	_, err = ms.Undelegate(ctx, &types.MsgUndelegate{DelegatorAddress: user.String(), ValidatorAddress: valAddr, Amount: sdk.NewCoin(bondDenom, math.NewInt(1_000_000))})
	require.NoError(t, err)
	require.NoError(t, huntEndBlock(ctx, app))

	unbondingTime, err := app.StakingKeeper.UnbondingTime(ctx)
	require.NoError(t, err)
	ctx = ctx.WithBlockHeight(3).WithBlockTime(ctx.BlockTime().Add(unbondingTime).Add(time.Second))
	err = huntEndBlock(ctx, app)
	require.NoError(t, err, "C17 violated: end blocker fails when the undelegation matures")
}

// Defect 3: RewardWeightChangeHook computes RewardChangeRate^intervals (and weight*multiplier) before clamping to the
// weight range; with a growth rate > 1 and a short interval (both accepted) LegacyDec overflows and panics.
func TestHuntRewardChangeRateOverflow(t *testing.T) {
	app, ctx, ms, authority := huntSetup(t)
	_, err := ms.CreateAlliance(ctx, &types.MsgCreateAlliance{
		Authority:            authority,
		Denom:                AllianceDenom,
		RewardWeight:         math.LegacyMustNewDecFromStr("0.1"),
		RewardWeightRange:    types.RewardWeightRange{Min: math.LegacyZeroDec(), Max: math.LegacyOneDec()},
		TakeRate:             math.LegacyZeroDec(),
		RewardChangeRate:     math.LegacyNewDec(2), // weight doubles ...
		RewardChangeInterval: time.Second,          // ... every second until it reaches the max of the range
	})
	require.NoError(t, err)
	asset, _ := app.AllianceKeeper.GetAssetByDenom(ctx, AllianceDenom)

	// regular blocks: fine
	ctx = ctx.WithBlockHeight(2).WithBlockTime(asset.RewardStartTime.Add(5 * time.Second))
	require.NoError(t, huntEndBlock(ctx, app))
	asset, _ = app.AllianceKeeper.GetAssetByDenom(ctx, AllianceDenom)
	require.Equal(t, math.LegacyOneDec(), asset.RewardWeight)

	// one block arrives 5 minutes after the previous one (slow round, halt + restart, upgrade)
	ctx = ctx.WithBlockHeight(3).WithBlockTime(ctx.BlockTime().Add(5 * time.Minute))
	err = huntEndBlock(ctx, app)
	require.NoError(t, err, "C17 violated: accepted RewardChangeRate/RewardChangeInterval make the end blocker panic")
}

// Defect 3b: same root cause with a nanosecond interval - the very first block after the start time panics.
func TestHuntRewardChangeIntervalNanosecond(t *testing.T) {
	app, ctx, ms, authority := huntSetup(t)
	_, err := ms.CreateAlliance(ctx, &types.MsgCreateAlliance{
		Authority:            authority,
		Denom:                AllianceDenom,
		RewardWeight:         math.LegacyMustNewDecFromStr("0.1"),
		RewardWeightRange:    types.RewardWeightRange{Min: math.LegacyZeroDec(), Max: math.LegacyOneDec()},
		TakeRate:             math.LegacyZeroDec(),
		RewardChangeRate:     math.LegacyMustNewDecFromStr("1.01"),
		RewardChangeInterval: time.Nanosecond,
	})
	require.NoError(t, err)
	asset, _ := app.AllianceKeeper.GetAssetByDenom(ctx, AllianceDenom)
	ctx = ctx.WithBlockHeight(2).WithBlockTime(asset.RewardStartTime.Add(5 * time.Second))
	err = huntEndBlock(ctx, app)
	require.NoError(t, err, "C17 violated")
}

// Defect 4: no upper bound on RewardWeight: weight * nativeBonded overflows LegacyDec in RebalanceBondTokenWeights.
func TestHuntHugeRewardWeightOverflow(t *testing.T) {
	app, ctx, ms, authority := huntSetup(t)
	addrs := test_helpers.AddTestAddrsIncremental(app, ctx, 2, sdk.NewCoins(sdk.NewCoin(AllianceDenom, math.NewInt(10_000_000))))
	delegations, err := app.StakingKeeper.GetAllDelegations(ctx)
	require.NoError(t, err)
	valAddr := delegations[0].ValidatorAddress
	huge := math.LegacyNewDecFromInt(math.NewIntWithDecimal(1, 72))
	_, err = ms.CreateAlliance(ctx, &types.MsgCreateAlliance{
		Authority:            authority,
		Denom:                AllianceDenom,
		RewardWeight:         huge,
		RewardWeightRange:    types.RewardWeightRange{Min: math.LegacyZeroDec(), Max: huge},
		TakeRate:             math.LegacyZeroDec(),
		RewardChangeRate:     math.LegacyOneDec(),
		RewardChangeInterval: 0,
	})
	require.NoError(t, err)
	_, err = ms.Delegate(ctx, &types.MsgDelegate{DelegatorAddress: addrs[1].String(), ValidatorAddress: valAddr, Amount: sdk.NewCoin(AllianceDenom, math.NewInt(1_000_000))})
	require.NoError(t, err)
	require.NoError(t, huntEndBlock(ctx, app))
	asset, _ := app.AllianceKeeper.GetAssetByDenom(ctx, AllianceDenom)
	ctx = ctx.WithBlockHeight(2).WithBlockTime(asset.RewardStartTime.Add(time.Second))
	err = huntEndBlock(ctx, app)
	require.NoError(t, err, "C17 violated: accepted RewardWeight makes the end blocker panic")
}
