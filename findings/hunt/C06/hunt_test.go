package tests_test

import (
	"testing"
	"time"

	"cosmossdk.io/math"

	test_helpers "github.com/terra-money/alliance/app"
	"github.com/terra-money/alliance/x/alliance"
	"github.com/terra-money/alliance/x/alliance/keeper"
	"github.com/terra-money/alliance/x/alliance/types"

	sdk "github.com/cosmos/cosmos-sdk/types"
	teststaking "github.com/cosmos/cosmos-sdk/x/staking/testutil"
	stakingtypes "github.com/cosmos/cosmos-sdk/x/staking/types"
	"github.com/stretchr/testify/require"
)

// huntPositionValue is the exact (un-rounded) value of one position:
// delShares / validator.TotalDelegatorShares * validatorShares / asset.TotalValidatorShares * asset.TotalTokens
func huntPositionValue(t *testing.T, app *test_helpers.App, ctx sdk.Context, d types.Delegation) math.LegacyDec {
	t.Helper()
	valAddr, err := sdk.ValAddressFromBech32(d.ValidatorAddress)
	require.NoError(t, err)
	val, err := app.AllianceKeeper.GetAllianceValidator(ctx, valAddr)
	require.NoError(t, err)
	asset, found := app.AllianceKeeper.GetAssetByDenom(ctx, d.Denom)
	require.True(t, found)
	total := val.TotalDelegationSharesWithDenom(d.Denom)
	if total.IsZero() || d.Shares.IsZero() {
		return math.LegacyZeroDec()
	}
	return d.Shares.Quo(total).Mul(val.TotalTokensWithAsset(asset))
}

// huntSumOfPositions sums the value of every stored position of denom
func huntSumOfPositions(t *testing.T, app *test_helpers.App, ctx sdk.Context, denom string) math.LegacyDec {
	t.Helper()
	sum := math.LegacyZeroDec()
	err := app.AllianceKeeper.IterateDelegations(ctx, func(d types.Delegation) bool {
		if d.Denom == denom {
			sum = sum.Add(huntPositionValue(t, app, ctx, d))
		}
		return false
	})
	require.NoError(t, err)
	return sum
}

func huntSetup(t *testing.T) (*test_helpers.App, sdk.Context, []sdk.AccAddress, []sdk.ValAddress) {
	t.Helper()
	app, ctx := createTestContext(t)
	startTime := time.Now()
	ctx = ctx.WithBlockTime(startTime).WithBlockHeight(1)
	app.AllianceKeeper.InitGenesis(ctx, &types.GenesisState{
		Params: types.DefaultParams(),
		Assets: []types.AllianceAsset{
			types.NewAllianceAsset(AllianceDenom, math.LegacyNewDec(10), math.LegacyZeroDec(), math.LegacyNewDec(20), math.LegacyZeroDec(), startTime),
		},
	})
	addrs := test_helpers.AddTestAddrsIncremental(app, ctx, 7, sdk.NewCoins(
		sdk.NewCoin(AllianceDenom, math.NewInt(1_000_000_000)),
	))
	pks := test_helpers.CreateTestPubKeys(3)
	var valAddrs []sdk.ValAddress
	for i := 0; i < 3; i++ {
		valAddr := sdk.ValAddress(addrs[i])
		v := teststaking.NewValidator(t, valAddr, pks[i])
		v.Commission = stakingtypes.Commission{
			CommissionRates: stakingtypes.CommissionRates{
				Rate:          math.LegacyNewDec(0),
				MaxRate:       math.LegacyNewDec(0),
				MaxChangeRate: math.LegacyNewDec(0),
			},
			UpdateTime: startTime,
		}
		test_helpers.RegisterNewValidator(t, app, ctx, v)
		valAddrs = append(valAddrs, valAddr)
	}
	return app, ctx, addrs[3:], valAddrs
}

// The value taken from a redelegation destination position when the source validator is slashed
// must be redistributed to other positions, never destroyed: the sum of all positions of the asset must still be the
// asset's staked total after the slash.
func TestHuntRedelegationSlashOrphansValue(t *testing.T) {
	app, ctx, users, vals := huntSetup(t)
	msgServer := keeper.NewMsgServerImpl(app.AllianceKeeper)
	user1, user2, user3 := users[0], users[1], users[2]
	val1, val2, val3 := vals[0], vals[1], vals[2]

	// user1 and user2 on val1, user3 on val3, nobody on val2
	for _, m := range []*types.MsgDelegate{
		types.NewMsgDelegate(user1.String(), val1.String(), sdk.NewCoin(AllianceDenom, math.NewInt(100_000_000))),
		types.NewMsgDelegate(user2.String(), val1.String(), sdk.NewCoin(AllianceDenom, math.NewInt(100_000_000))),
		types.NewMsgDelegate(user3.String(), val3.String(), sdk.NewCoin(AllianceDenom, math.NewInt(100_000_000))),
	} {
		_, err := msgServer.Delegate(ctx, m)
		require.NoError(t, err)
	}
	require.NoError(t, alliance.EndBlocker(ctx, app.AllianceKeeper))

	// next block: user1 moves everything from val1 to val2 (the only position on val2) and then unbonds 95% of it
	ctx = ctx.WithBlockTime(ctx.BlockTime().Add(time.Minute)).WithBlockHeight(2)
	_, err := msgServer.Redelegate(ctx, types.NewMsgRedelegate(user1.String(), val1.String(), val2.String(), sdk.NewCoin(AllianceDenom, math.NewInt(100_000_000))))
	require.NoError(t, err)
	_, err = msgServer.Undelegate(ctx, types.NewMsgUndelegate(user1.String(), val2.String(), sdk.NewCoin(AllianceDenom, math.NewInt(95_000_000))))
	require.NoError(t, err)
	require.NoError(t, alliance.EndBlocker(ctx, app.AllianceKeeper))

	asset, _ := app.AllianceKeeper.GetAssetByDenom(ctx, AllianceDenom)
	require.Equal(t, math.NewInt(205_000_000), asset.TotalTokens)
	sumBefore := huntSumOfPositions(t, app, ctx, AllianceDenom)
	// before the slash all the staked tokens are owned by positions
	require.True(t, math.LegacyNewDecFromInt(asset.TotalTokens).Sub(sumBefore).Abs().LT(math.LegacyOneDec()), "before: total %s, positions %s", asset.TotalTokens, sumBefore)
	custodyBefore := app.BankKeeper.GetBalance(ctx, app.AccountKeeper.GetModuleAddress(types.ModuleName), AllianceDenom)

	// next block: x/slashing slashes val1 by 10% (redelegation of 100_000_000 is still immature => 10_000_000 to slash,
	// but only about 5_000_000 are left on the destination)
	ctx = ctx.WithBlockTime(ctx.BlockTime().Add(time.Minute)).WithBlockHeight(3)
	sval1, err := app.StakingKeeper.GetValidator(ctx, val1)
	require.NoError(t, err)
	require.True(t, sval1.Tokens.IsPositive())
	cons1, err := sval1.GetConsAddr()
	require.NoError(t, err)
	power := sval1.GetConsensusPower(app.StakingKeeper.PowerReduction(ctx))
	require.NoError(t, app.SlashingKeeper.Slash(ctx, cons1, math.LegacyNewDecWithPrec(1, 1), power, 3))

	asset, _ = app.AllianceKeeper.GetAssetByDenom(ctx, AllianceDenom)
	// staked total and custody (bonded part) untouched
	require.Equal(t, math.NewInt(205_000_000), asset.TotalTokens)
	custodyAfter := app.BankKeeper.GetBalance(ctx, app.AccountKeeper.GetModuleAddress(types.ModuleName), AllianceDenom)
	t.Logf("custody before %s after %s", custodyBefore, custodyAfter)

	d1, found := app.AllianceKeeper.GetDelegation(ctx, user1, val2, AllianceDenom)
	t.Logf("user1 position on val2 after slash: found=%v shares=%s value=%s", found, d1.Shares, huntPositionValue(t, app, ctx, d1))
	v2, _ := app.AllianceKeeper.GetAllianceValidator(ctx, val2)
	t.Logf("val2 after slash: validator shares %s, delegator shares %s, tokens %s", v2.ValidatorShares, v2.TotalDelegatorShares, v2.TotalTokensWithAsset(asset))

	sumAfter := huntSumOfPositions(t, app, ctx, AllianceDenom)
	missing := math.LegacyNewDecFromInt(asset.TotalTokens).Sub(sumAfter)
	t.Logf("staked total %s, sum of all positions %s, owned by nobody %s", asset.TotalTokens, sumAfter, missing)

	// what a newcomer gets for 1 token on val2
	ctx2, _ := ctx.CacheContext()
	_, err = keeper.NewMsgServerImpl(app.AllianceKeeper).Delegate(ctx2, types.NewMsgDelegate(users[3].String(), val2.String(), sdk.NewCoin(AllianceDenom, math.NewInt(1))))
	require.NoError(t, err)
	dn, _ := app.AllianceKeeper.GetDelegation(ctx2, users[3], val2, AllianceDenom)
	t.Logf("a newcomer delegating 1 token to val2 now owns %s", huntPositionValue(t, app, ctx2, dn))

	// the slashed redelegator himself can take the value back by adding 1 token to his zero-share position
	ctx3, _ := ctx.CacheContext()
	_, err = keeper.NewMsgServerImpl(app.AllianceKeeper).Delegate(ctx3, types.NewMsgDelegate(user1.String(), val2.String(), sdk.NewCoin(AllianceDenom, math.NewInt(1))))
	require.NoError(t, err)
	du, _ := app.AllianceKeeper.GetDelegation(ctx3, user1, val2, AllianceDenom)
	t.Logf("user1 delegating 1 more token to val2 owns again %s", huntPositionValue(t, app, ctx3, du))

	// C06: value removed from the destination position is redistributed to other positions, never destroyed
	require.True(t, missing.Abs().LT(math.LegacyOneDec()),
		"value removed from the redelegation destination position was not redistributed: staked total %s, sum of positions %s, missing %s",
		asset.TotalTokens, sumAfter, missing)
}

// Adjacent observation (clause of C07 that C06 relies on): when the redelegator is the only delegator of the destination
// validator in that denom, the slash of the destination position removes no value at all, because delegation shares and
// the validator's total delegator shares are reduced by the same amount and the validator shares are not touched.
func TestHuntRedelegationSlashNoopWhenAlone(t *testing.T) {
	app, ctx, users, vals := huntSetup(t)
	msgServer := keeper.NewMsgServerImpl(app.AllianceKeeper)
	user1, user2, user3 := users[0], users[1], users[2]
	val1, val2, val3 := vals[0], vals[1], vals[2]
	for _, m := range []*types.MsgDelegate{
		types.NewMsgDelegate(user1.String(), val1.String(), sdk.NewCoin(AllianceDenom, math.NewInt(100_000_000))),
		types.NewMsgDelegate(user2.String(), val1.String(), sdk.NewCoin(AllianceDenom, math.NewInt(100_000_000))),
		types.NewMsgDelegate(user3.String(), val3.String(), sdk.NewCoin(AllianceDenom, math.NewInt(100_000_000))),
	} {
		_, err := msgServer.Delegate(ctx, m)
		require.NoError(t, err)
	}
	require.NoError(t, alliance.EndBlocker(ctx, app.AllianceKeeper))

	ctx = ctx.WithBlockTime(ctx.BlockTime().Add(time.Minute)).WithBlockHeight(2)
	_, err := msgServer.Redelegate(ctx, types.NewMsgRedelegate(user1.String(), val1.String(), val2.String(), sdk.NewCoin(AllianceDenom, math.NewInt(100_000_000))))
	require.NoError(t, err)
	require.NoError(t, alliance.EndBlocker(ctx, app.AllianceKeeper))

	d1, _ := app.AllianceKeeper.GetDelegation(ctx, user1, val2, AllianceDenom)
	d3, _ := app.AllianceKeeper.GetDelegation(ctx, user3, val3, AllianceDenom)
	before1 := huntPositionValue(t, app, ctx, d1)
	before3 := huntPositionValue(t, app, ctx, d3)

	ctx = ctx.WithBlockTime(ctx.BlockTime().Add(time.Minute)).WithBlockHeight(3)
	sval1, err := app.StakingKeeper.GetValidator(ctx, val1)
	require.NoError(t, err)
	cons1, err := sval1.GetConsAddr()
	require.NoError(t, err)
	power := sval1.GetConsensusPower(app.StakingKeeper.PowerReduction(ctx))
	require.NoError(t, app.SlashingKeeper.Slash(ctx, cons1, math.LegacyNewDecWithPrec(1, 1), power, 3))

	d1, _ = app.AllianceKeeper.GetDelegation(ctx, user1, val2, AllianceDenom)
	d3, _ = app.AllianceKeeper.GetDelegation(ctx, user3, val3, AllianceDenom)
	after1 := huntPositionValue(t, app, ctx, d1)
	after3 := huntPositionValue(t, app, ctx, d3)
	g := after3.Quo(before3) // factor of a position on an uninvolved validator
	t.Logf("g=%s, redelegated position: before %s after %s (ratio %s), shares now %s", g, before1, after1, after1.Quo(before1), d1.Shares)
	require.True(t, g.GT(math.LegacyOneDec()), "val1 was slashed")
	// the redelegated position must lose relative to everyone else
	require.True(t, after1.Quo(before1).LT(g.Sub(math.LegacyNewDecWithPrec(1, 3))),
		"redelegated position from the slashed validator lost nothing: ratio %s vs g %s", after1.Quo(before1), g)
}
