package tests_test

import (
	"testing"
	"time"

	"cosmossdk.io/math"
	sdk "github.com/cosmos/cosmos-sdk/types"
	"github.com/stretchr/testify/require"

	abcitypes "github.com/cometbft/cometbft/abci/types"
	authtypes "github.com/cosmos/cosmos-sdk/x/auth/types"
	distrkeeper "github.com/cosmos/cosmos-sdk/x/distribution/keeper"
	distrtypes "github.com/cosmos/cosmos-sdk/x/distribution/types"
	teststaking "github.com/cosmos/cosmos-sdk/x/staking/testutil"
	stakingtypes "github.com/cosmos/cosmos-sdk/x/staking/types"

	test_helpers "github.com/terra-money/alliance/app"
	"github.com/terra-money/alliance/x/alliance"
	"github.com/terra-money/alliance/x/alliance/keeper"
	"github.com/terra-money/alliance/x/alliance/types"
)

// huntOwed returns staked total + all pending unbonding balances of a denom
func huntOwed(ctx sdk.Context, app *test_helpers.App, denom string) math.Int {
	owed := math.ZeroInt()
	asset, found := app.AllianceKeeper.GetAssetByDenom(ctx, denom)
	if found {
		owed = owed.Add(asset.TotalTokens)
	}
	app.AllianceKeeper.IterateUndelegations(ctx, func(u types.QueuedUndelegation, _ time.Time) bool {
		for _, e := range u.Entries {
			if e.Balance.Denom == denom {
				owed = owed.Add(e.Balance.Amount)
			}
		}
		return false
	})
	return owed
}

func huntCustody(ctx sdk.Context, app *test_helpers.App, denom string) math.Int {
	moduleAddr := app.AccountKeeper.GetModuleAddress(types.ModuleName)
	return app.BankKeeper.GetBalance(ctx, moduleAddr, denom).Amount
}

// C01: custody == staked total + pending unbondings, for every alliance asset.
// The create-alliance handler accepts the chain's bond denom as alliance denom. The end blocker
// (CompleteUnbondings) burns every bond-denom coin of the custody account as "virtual staking tokens",
// so the delegators' stake is destroyed while asset.TotalTokens still records it.
func TestHuntBondDenomAllianceCustodyBurned(t *testing.T) {
	app, ctx := createTestContext(t)
	startTime := time.Now()
	ctx = ctx.WithBlockTime(startTime).WithBlockHeight(1)

	bondDenom, err := app.StakingKeeper.BondDenom(ctx)
	require.NoError(t, err)

	ms := keeper.MsgServer{Keeper: app.AllianceKeeper}
	// governance creates an alliance; the handler accepts the native staking denom
	_, err = ms.CreateAlliance(ctx, &types.MsgCreateAlliance{
		Authority:            app.AllianceKeeper.GetAuthority(),
		Denom:                bondDenom,
		RewardWeight:         math.LegacyNewDecWithPrec(1, 1),
		RewardWeightRange:    types.RewardWeightRange{Min: math.LegacyZeroDec(), Max: math.LegacyNewDec(1)},
		TakeRate:             math.LegacyZeroDec(),
		RewardChangeRate:     math.LegacyOneDec(),
		RewardChangeInterval: 0,
	})
	require.NoError(t, err)

	delegations, err := app.StakingKeeper.GetAllDelegations(ctx)
	require.NoError(t, err)
	valAddr, err := sdk.ValAddressFromBech32(delegations[0].ValidatorAddress)
	require.NoError(t, err)

	delAddr := test_helpers.AddTestAddrsIncremental(app, ctx, 1, sdk.NewCoins(sdk.NewCoin(bondDenom, math.NewInt(1_000_000))))[0]

	_, err = ms.Delegate(ctx, &types.MsgDelegate{
		DelegatorAddress: delAddr.String(),
		ValidatorAddress: valAddr.String(),
		Amount:           sdk.NewCoin(bondDenom, math.NewInt(1_000_000)),
	})
	require.NoError(t, err)

	// right after the message the clause holds
	require.Equal(t, huntOwed(ctx, app, bondDenom).String(), huntCustody(ctx, app, bondDenom).String())
	require.Equal(t, "1000000", huntOwed(ctx, app, bondDenom).String())

	// block boundary
	require.NoError(t, alliance.EndBlocker(ctx, app.AllianceKeeper))

	owed := huntOwed(ctx, app, bondDenom)
	custody := huntCustody(ctx, app, bondDenom)
	require.Equal(t, "1000000", owed.String())
	require.True(t, custody.GTE(owed), "custody %s fell short of staked total + unbondings %s", custody, owed)

	// consequence: the delegator can never be paid out
	val, err := app.AllianceKeeper.GetAllianceValidator(ctx, valAddr)
	require.NoError(t, err)
	_, err = app.AllianceKeeper.Undelegate(ctx, delAddr, val, sdk.NewCoin(bondDenom, math.NewInt(1_000_000)))
	require.NoError(t, err)
	unbondingTime, err := app.StakingKeeper.UnbondingTime(ctx)
	require.NoError(t, err)
	ctx = ctx.WithBlockTime(ctx.BlockTime().Add(unbondingTime).Add(time.Minute)).WithBlockHeight(2)
	require.NoError(t, alliance.EndBlocker(ctx, app.AllianceKeeper))
}

// C01: custody may exceed staked total + pending unbondings only by coins that third parties sent unsolicited.
// The module itself moves take-rate proceeds (alliance denom) custody -> fee collector -> x/distribution ->
// rewards of the module's own native delegation. When ClaimValidatorRewards withdraws them for a validator
// whose alliance delegators have all left (the module's native stake stays on a jailed validator because the
// rebalance skips non-bonded validators), AddAssetsToRewardPool returns early and the coins stay in the
// custody account for good: custody silently drifts away from what is owed.
func TestHuntRewardsStrandedInCustody(t *testing.T) {
	app, ctx := createTestContext(t)
	bondDenom, err := app.StakingKeeper.BondDenom(ctx)
	require.NoError(t, err)
	startTime := time.Now()
	ctx = ctx.WithBlockTime(startTime).WithBlockHeight(1)
	params := types.DefaultParams()
	params.LastTakeRateClaimTime = startTime
	app.AllianceKeeper.InitGenesis(ctx, &types.GenesisState{
		Params: params,
		Assets: []types.AllianceAsset{
			{
				Denom:                AllianceDenom,
				RewardWeight:         math.LegacyMustNewDecFromStr("0.1"),
				RewardWeightRange:    types.RewardWeightRange{Min: math.LegacyZeroDec(), Max: math.LegacyNewDec(1)},
				TakeRate:             math.LegacyMustNewDecFromStr("0.01"),
				TotalTokens:          math.ZeroInt(),
				TotalValidatorShares: math.LegacyZeroDec(),
				RewardStartTime:      startTime,
				RewardChangeRate:     math.LegacyOneDec(),
				LastRewardChangeTime: startTime,
				IsInitialized:        true,
			},
		},
	})

	addrs := test_helpers.AddTestAddrsIncremental(app, ctx, 5, sdk.NewCoins(
		sdk.NewCoin(bondDenom, math.NewInt(10_000_000)),
		sdk.NewCoin(AllianceDenom, math.NewInt(50_000_000)),
	))
	pks := test_helpers.CreateTestPubKeys(2)

	delegations, err := app.StakingKeeper.GetAllDelegations(ctx)
	require.NoError(t, err)
	valAddr0, err := sdk.ValAddressFromBech32(delegations[0].ValidatorAddress)
	require.NoError(t, err)
	val0, _ := app.StakingKeeper.GetValidator(ctx, valAddr0)
	_, err = app.StakingKeeper.Delegate(ctx, addrs[4], math.NewInt(9_000_000), stakingtypes.Unbonded, val0, true)
	require.NoError(t, err)

	newVal := func(i int, moniker string) sdk.ValAddress {
		valAddr := sdk.ValAddress(addrs[i])
		v := teststaking.NewValidator(t, valAddr, pks[i])
		v.Commission = stakingtypes.Commission{
			CommissionRates: stakingtypes.CommissionRates{Rate: math.LegacyZeroDec(), MaxRate: math.LegacyZeroDec(), MaxChangeRate: math.LegacyZeroDec()},
			UpdateTime:      startTime,
		}
		v.Description.Moniker = moniker
		test_helpers.RegisterNewValidator(t, app, ctx, v)
		_, err := app.StakingKeeper.Delegate(ctx, addrs[i], math.NewInt(1_000_000), stakingtypes.Unbonded, v, true)
		require.NoError(t, err)
		return valAddr
	}
	valAddr1 := newVal(0, "val1")
	valAddr2 := newVal(1, "val2")
	user1, user2 := addrs[2], addrs[3]
	ms := keeper.MsgServer{Keeper: app.AllianceKeeper}

	endBlock := func() {
		_, err := app.StakingKeeper.ApplyAndReturnValidatorSetUpdates(ctx)
		require.NoError(t, err)
		require.NoError(t, alliance.EndBlocker(ctx, app.AllianceKeeper))
	}
	requireCustody := func(step string) {
		owed := huntOwed(ctx, app, AllianceDenom)
		custody := huntCustody(ctx, app, AllianceDenom)
		require.Equal(t, owed.String(), custody.String(), "%s: custody %s != staked total + unbondings %s", step, custody, owed)
	}

	// block 1: user1 stakes on val2, user2 on val1; the module bonds native stake on both
	_, err = ms.Delegate(ctx, &types.MsgDelegate{DelegatorAddress: user1.String(), ValidatorAddress: valAddr2.String(), Amount: sdk.NewCoin(AllianceDenom, math.NewInt(20_000_000))})
	require.NoError(t, err)
	_, err = ms.Delegate(ctx, &types.MsgDelegate{DelegatorAddress: user2.String(), ValidatorAddress: valAddr1.String(), Amount: sdk.NewCoin(AllianceDenom, math.NewInt(20_000_000))})
	require.NoError(t, err)
	endBlock()
	requireCustody("block 1")
	moduleAddr := app.AccountKeeper.GetModuleAddress(types.ModuleName)
	_, err = app.StakingKeeper.GetDelegation(ctx, moduleAddr, valAddr2)
	require.NoError(t, err, "module must have bonded on val2")

	// block 2: val2 is jailed, its only alliance delegator leaves; the take rate is deducted in this end blocker
	ctx = ctx.WithBlockTime(ctx.BlockTime().Add(5*time.Minute + time.Second)).WithBlockHeight(2)
	val2, err := app.AllianceKeeper.GetAllianceValidator(ctx, valAddr2)
	require.NoError(t, err)
	cons2, _ := val2.GetConsAddr()
	require.NoError(t, app.SlashingKeeper.Jail(ctx, cons2))
	_, err = ms.Undelegate(ctx, &types.MsgUndelegate{DelegatorAddress: user1.String(), ValidatorAddress: valAddr2.String(), Amount: sdk.NewCoin(AllianceDenom, math.NewInt(20_000_000))})
	require.NoError(t, err)
	endBlock()
	requireCustody("block 2")
	feeCollector := app.AccountKeeper.GetModuleAddress(authtypes.FeeCollectorName)
	taken := app.BankKeeper.GetBalance(ctx, feeCollector, AllianceDenom)
	require.True(t, taken.Amount.IsPositive(), "take rate must have been deducted")
	// the module's native stake stays on the jailed validator (rebalance skips non-bonded validators)
	_, err = app.StakingKeeper.GetDelegation(ctx, moduleAddr, valAddr2)
	require.NoError(t, err)
	info, _ := app.AllianceKeeper.GetAllianceValidatorInfo(ctx, valAddr2)
	require.Len(t, info.TotalDelegatorShares, 0)

	// block 3 begin: x/distribution allocates the fees of block 2 to the validators of block 2's commit,
	// val2 is still part of it (validator set updates are delayed)
	ctx = ctx.WithBlockTime(ctx.BlockTime().Add(6 * time.Second)).WithBlockHeight(3)
	var votes []abcitypes.VoteInfo
	totalPower := int64(0)
	for _, va := range []sdk.ValAddress{valAddr0, valAddr1, valAddr2} {
		v, err := app.StakingKeeper.GetValidator(ctx, va)
		require.NoError(t, err)
		cons, _ := v.GetConsAddr()
		power := v.Tokens.Quo(sdk.DefaultPowerReduction).Int64()
		totalPower += power
		votes = append(votes, abcitypes.VoteInfo{Validator: abcitypes.Validator{Address: cons, Power: power}, BlockIdFlag: 2})
	}
	require.NoError(t, app.DistrKeeper.AllocateTokens(ctx, totalPower, votes))
	endBlock()
	requireCustody("block 3")

	// later: val2 is unjailed and bonds again, the end blocker rebalances (claims val2's rewards, unbonds the module's stake)
	ctx = ctx.WithBlockTime(ctx.BlockTime().Add(time.Hour)).WithBlockHeight(4)
	pending, err := distrkeeper.NewQuerier(app.DistrKeeper).DelegationRewards(ctx, &distrtypes.QueryDelegationRewardsRequest{DelegatorAddress: moduleAddr.String(), ValidatorAddress: valAddr2.String()})
	require.NoError(t, err)
	pendingAlliance := pending.Rewards.AmountOf(AllianceDenom).TruncateInt()
	require.True(t, pendingAlliance.IsPositive(), "the module's stake on val2 must have earned alliance-denom rewards")
	require.NoError(t, app.SlashingKeeper.Unjail(ctx, valAddr2))
	endBlock()
	_, err = app.StakingKeeper.GetDelegation(ctx, moduleAddr, valAddr2)
	require.Error(t, err, "rebalance must have unbonded the module's stake on val2")
	t.Logf("pending alliance-denom rewards of the module on val2 before the claim: %s; custody surplus after the claim: %s",
		pendingAlliance, huntCustody(ctx, app, AllianceDenom).Sub(huntOwed(ctx, app, AllianceDenom)))
	ctx = ctx.WithBlockTime(ctx.BlockTime().Add(6 * time.Second)).WithBlockHeight(5)
	endBlock()

	owed := huntOwed(ctx, app, AllianceDenom)
	custody := huntCustody(ctx, app, AllianceDenom)
	t.Logf("owed=%s custody=%s rewardsPool=%s", owed, custody, app.BankKeeper.GetAllBalances(ctx, app.AccountKeeper.GetModuleAddress(types.RewardsPoolName)))
	require.Equal(t, owed.String(), custody.String(), "custody drifted from staked total + unbondings although no third party sent anything")
}
