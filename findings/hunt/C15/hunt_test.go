package tests_test

import (
	"fmt"
	"math/big"
	"math/rand"
	"testing"
	"time"

	"cosmossdk.io/math"
	storetypes "cosmossdk.io/store/types"
	sdk "github.com/cosmos/cosmos-sdk/types"
	teststaking "github.com/cosmos/cosmos-sdk/x/staking/testutil"
	stakingtypes "github.com/cosmos/cosmos-sdk/x/staking/types"
	"github.com/stretchr/testify/require"

	test_helpers "github.com/terra-money/alliance/app"
	"github.com/terra-money/alliance/x/alliance"
	"github.com/terra-money/alliance/x/alliance/keeper"
	"github.com/terra-money/alliance/x/alliance/types"
)

type huntEnv struct {
	t      *testing.T
	app    *test_helpers.App
	ctx    sdk.Context
	ms     types.MsgServer
	vals   []sdk.ValAddress
	users  []sdk.AccAddress
	denoms []string
}

func (e *huntEnv) position(ctx sdk.Context, del sdk.AccAddress, val sdk.ValAddress, denom string) math.Int {
	d, found := e.app.AllianceKeeper.GetDelegation(ctx, del, val, denom)
	if !found {
		return math.ZeroInt()
	}
	v, err := e.app.AllianceKeeper.GetAllianceValidator(ctx, val)
	require.NoError(e.t, err)
	a, _ := e.app.AllianceKeeper.GetAssetByDenom(ctx, denom)
	return types.GetDelegationTokens(d, v, a).Amount
}

func (e *huntEnv) positionDec(ctx sdk.Context, del sdk.AccAddress, val sdk.ValAddress, denom string) math.LegacyDec {
	d, found := e.app.AllianceKeeper.GetDelegation(ctx, del, val, denom)
	if !found {
		return math.LegacyZeroDec()
	}
	v, err := e.app.AllianceKeeper.GetAllianceValidator(ctx, val)
	require.NoError(e.t, err)
	a, _ := e.app.AllianceKeeper.GetAssetByDenom(ctx, denom)
	valTokens := v.TotalTokensWithAsset(a)
	return types.ConvertNewShareToDecToken(valTokens, v.TotalDelegationSharesWithDenom(denom), d.Shares)
}

func (e *huntEnv) countPrefix(ctx sdk.Context, prefix []byte) int {
	store := ctx.KVStore(e.app.GetKey(types.StoreKey))
	it := storetypes.KVStorePrefixIterator(store, prefix)
	defer it.Close()
	n := 0
	for ; it.Valid(); it.Next() {
		n++
	}
	return n
}

func newHuntEnv(t *testing.T, takeRate math.LegacyDec, nVals, nUsers int, fund math.Int) *huntEnv {
	app, ctx := createTestContext(t)
	start := time.Date(2024, 1, 1, 0, 0, 0, 0, time.UTC)
	ctx = ctx.WithBlockTime(start).WithBlockHeight(1)
	app.AllianceKeeper.InitGenesis(ctx, &types.GenesisState{
		Params: types.DefaultParams(),
		Assets: []types.AllianceAsset{
			types.NewAllianceAsset(AllianceDenom, math.LegacyNewDec(2), math.LegacyZeroDec(), math.LegacyNewDec(5), takeRate, start),
			types.NewAllianceAsset(AllianceDenomTwo, math.LegacyNewDec(10), math.LegacyNewDec(2), math.LegacyNewDec(12), math.LegacyZeroDec(), start),
		},
	})
	addrs := test_helpers.AddTestAddrsIncremental(app, ctx, nVals+nUsers, sdk.NewCoins(
		sdk.NewCoin(AllianceDenom, fund),
		sdk.NewCoin(AllianceDenomTwo, fund),
	))
	pks := test_helpers.CreateTestPubKeys(nVals)
	e := &huntEnv{t: t, app: app, ms: keeper.NewMsgServerImpl(app.AllianceKeeper), denoms: []string{AllianceDenom, AllianceDenomTwo}}
	for i := 0; i < nVals; i++ {
		valAddr := sdk.ValAddress(addrs[i])
		v := teststaking.NewValidator(t, valAddr, pks[i])
		v.Commission = stakingtypes.Commission{CommissionRates: stakingtypes.CommissionRates{Rate: math.LegacyZeroDec(), MaxRate: math.LegacyZeroDec(), MaxChangeRate: math.LegacyZeroDec()}, UpdateTime: start}
		test_helpers.RegisterNewValidator(t, app, ctx, v)
		e.vals = append(e.vals, valAddr)
	}
	e.users = addrs[nVals:]
	e.ctx = ctx
	return e
}

// tx runs fn atomically like a delivered transaction
func (e *huntEnv) tx(fn func(ctx sdk.Context) error) (err error) {
	cctx, write := e.ctx.CacheContext()
	defer func() {
		if r := recover(); r != nil {
			err = fmt.Errorf("panic: %v", r)
		}
	}()
	err = fn(cctx)
	if err == nil {
		write()
	}
	return err
}

func (e *huntEnv) endBlock(dt time.Duration) {
	require.NoError(e.t, alliance.EndBlocker(e.ctx, e.app.AllianceKeeper))
	e.ctx = e.ctx.WithBlockTime(e.ctx.BlockTime().Add(dt)).WithBlockHeight(e.ctx.BlockHeight() + 1)
}

func TestHuntExplore(t *testing.T) {
	for seed := int64(1); seed <= 10; seed++ {
		seed := seed
		t.Run(fmt.Sprintf("seed%d", seed), func(t *testing.T) {
			exploreOnce(t, seed)
		})
	}
}

func exploreOnce(t *testing.T, seed int64) {
	exploreScaled(t, seed, math.NewInt(1))
}

func TestHuntExploreHuge(t *testing.T) {
	scale, _ := math.NewIntFromString("1000000000000000000000")
	for seed := int64(1); seed <= 4; seed++ {
		seed := seed
		t.Run(fmt.Sprintf("seed%d", seed), func(t *testing.T) {
			exploreScaled(t, seed, scale)
		})
	}
}

func randUpTo(r *rand.Rand, max math.Int) math.Int {
	// 1 <= x <= max
	f := math.LegacyNewDec(r.Int63n(1_000_000_000)).QuoInt64(1_000_000_000)
	x := f.MulInt(max).TruncateInt()
	if !x.IsPositive() {
		return math.OneInt()
	}
	return x
}

func exploreScaled(t *testing.T, seed int64, scale math.Int) {
	r := rand.New(rand.NewSource(seed))
	takeRate := math.LegacyZeroDec()
	if seed%2 == 0 {
		takeRate = math.LegacyMustNewDecFromStr("0.013")
	}
	e := newHuntEnv(t, takeRate, 3, 4, math.NewInt(1_000_000_000).Mul(scale))
	unbonding, err := e.app.StakingKeeper.UnbondingTime(e.ctx)
	require.NoError(t, err)
	moduleAddr := e.app.AccountKeeper.GetModuleAddress(types.ModuleName)
	problems := 0
	stats := map[string]int{}
	sameBlock := map[string]string{}
	report := func(format string, args ...interface{}) {
		problems++
		if problems < 30 {
			t.Logf("PROBLEM "+format, args...)
		}
	}

	for step := 0; step < 1500; step++ {
		op := r.Intn(10)
		u := e.users[r.Intn(len(e.users))]
		denom := e.denoms[r.Intn(2)]
		a := e.vals[r.Intn(len(e.vals))]
		b := e.vals[r.Intn(len(e.vals))]
		switch {
		case op < 3:
			amt := math.NewInt(int64(1 + r.Intn(2_000_000))).Mul(scale).AddRaw(r.Int63n(1000))
			_ = e.tx(func(ctx sdk.Context) error {
				_, err := e.ms.Delegate(ctx, types.NewMsgDelegate(u.String(), a.String(), sdk.NewCoin(denom, amt)))
				return err
			})
		case op < 4:
			pos := e.position(e.ctx, u, a, denom)
			if pos.IsZero() {
				continue
			}
			amt := randUpTo(r, pos)
			_ = e.tx(func(ctx sdk.Context) error {
				_, err := e.ms.Undelegate(ctx, types.NewMsgUndelegate(u.String(), a.String(), sdk.NewCoin(denom, amt)))
				return err
			})
		case op < 8:
			if a.Equals(b) {
				continue
			}
			pos := e.position(e.ctx, u, a, denom)
			if pos.IsZero() {
				continue
			}
			var amt math.Int
			if r.Intn(3) == 0 {
				amt = pos
			} else {
				amt = randUpTo(r, pos)
			}
			srcBefore := e.position(e.ctx, u, a, denom)
			dstBefore := e.position(e.ctx, u, b, denom)
			srcBeforeD := e.positionDec(e.ctx, u, a, denom)
			dstBeforeD := e.positionDec(e.ctx, u, b, denom)
			assetBefore, _ := e.app.AllianceKeeper.GetAssetByDenom(e.ctx, denom)
			custodyBefore := e.app.BankKeeper.GetBalance(e.ctx, moduleAddr, denom)
			balBefore := e.app.BankKeeper.GetBalance(e.ctx, u, denom)
			pendingIntoSrc := e.app.AllianceKeeper.HasRedelegation(e.ctx, u, a, denom)
			k2key := u.String() + denom + b.String()
			if prevSrc, ok := sameBlock[k2key]; ok && prevSrc != a.String() {
				continue // known defect K2
			}
			err := e.tx(func(ctx sdk.Context) error {
				_, err := e.ms.Redelegate(ctx, types.NewMsgRedelegate(u.String(), a.String(), b.String(), sdk.NewCoin(denom, amt)))
				return err
			})
			if err != nil {
				if pendingIntoSrc {
					continue
				}
				// refused redelegations are not covered by the property ("a successful redelegation ...")
				stats["refused"]++
				continue
			}
			if pendingIntoSrc {
				report("step %d hop allowed while entry pending", step)
			}
			stats["redelegate"]++
			sameBlock[k2key] = a.String()
			srcAfter := e.position(e.ctx, u, a, denom)
			dstAfter := e.position(e.ctx, u, b, denom)
			srcAfterD := e.positionDec(e.ctx, u, a, denom)
			dstAfterD := e.positionDec(e.ctx, u, b, denom)
			if !srcBefore.Sub(srcAfter).Equal(amt) || !dstAfter.Sub(dstBefore).Equal(amt) {
				report("step %d moved %s: src %s->%s (%s->%s) dst %s->%s (%s->%s)", step, amt, srcBefore, srcAfter, srcBeforeD, srcAfterD, dstBefore, dstAfter, dstBeforeD, dstAfterD)
			}
			assetAfter, _ := e.app.AllianceKeeper.GetAssetByDenom(e.ctx, denom)
			if !assetAfter.TotalTokens.Equal(assetBefore.TotalTokens) || !assetAfter.TotalValidatorShares.Equal(assetBefore.TotalValidatorShares) {
				report("step %d asset totals changed", step)
			}
			if !e.app.BankKeeper.GetBalance(e.ctx, moduleAddr, denom).Amount.Equal(custodyBefore.Amount) {
				report("step %d custody changed", step)
			}
			if !e.app.BankKeeper.GetBalance(e.ctx, u, denom).Amount.Equal(balBefore.Amount) {
				report("step %d user balance changed", step)
			}
			store := e.ctx.KVStore(e.app.GetKey(types.StoreKey))
			completion := e.ctx.BlockTime().Add(unbonding)
			if !store.Has(types.GetRedelegationKey(u, denom, b, completion)) {
				report("step %d no entry", step)
			}
			if !store.Has(types.GetRedelegationIndexKey(a, completion, denom, b, u)) {
				report("step %d no index", step)
			}
			if !store.Has(types.GetRedelegationQueueKey(completion)) {
				report("step %d no queue", step)
			}
		case op < 9:
			// slash a validator slightly
			val, err := e.app.AllianceKeeper.GetAllianceValidator(e.ctx, a)
			require.NoError(t, err)
			cons, _ := val.GetConsAddr()
			power := val.GetConsensusPower(e.app.StakingKeeper.PowerReduction(e.ctx))
			if err := e.tx(func(ctx sdk.Context) error {
				return e.app.SlashingKeeper.Slash(ctx, cons, math.LegacyMustNewDecFromStr("0.05"), power, ctx.BlockHeight()-1)
			}); err == nil {
				stats["slash"]++
			} else {
				stats["slashfail"]++
			}
		default:
			dt := time.Duration(1+r.Intn(10)) * 24 * time.Hour
			if r.Intn(2) == 0 {
				dt = time.Duration(1+r.Intn(600)) * time.Second
			}
			e.endBlock(dt)
			sameBlock = map[string]string{}
			stats["blocks"]++
			// after the end blocker (run at the previous block time) nothing older than that time may remain
			prev := e.ctx.BlockTime().Add(-dt)
			e.app.AllianceKeeper.IterateRedelegations(e.ctx, func(red types.Redelegation, completionTime time.Time) bool {
				if completionTime.Before(prev) {
					report("step %d matured entry remains %v", step, red)
				}
				return false
			})
			nEntries := e.countPrefix(e.ctx, types.RedelegationKey)
			nIndex := e.countPrefix(e.ctx, types.RedelegationByValidatorIndexKey)
			if nEntries != nIndex {
				report("step %d entries %d index %d", step, nEntries, nIndex)
			}
			if nEntries == 0 && e.countPrefix(e.ctx, types.RedelegationQueueKey) != 0 {
				report("step %d queue remains", step)
			}
		}
	}
	t.Logf("stats %v", stats)
	require.Zero(t, problems)
}

// exactPosition returns the value of a position in base units with exact rational arithmetic:
// shares/totalDelegatorShares * validatorShares/totalValidatorShares * totalTokens
func (e *huntEnv) exactPosition(ctx sdk.Context, del sdk.AccAddress, val sdk.ValAddress, denom string) *big.Rat {
	d, found := e.app.AllianceKeeper.GetDelegation(ctx, del, val, denom)
	if !found {
		return new(big.Rat)
	}
	v, err := e.app.AllianceKeeper.GetAllianceValidator(ctx, val)
	require.NoError(e.t, err)
	a, _ := e.app.AllianceKeeper.GetAssetByDenom(ctx, denom)
	res := new(big.Rat).SetFrac(d.Shares.BigInt(), v.TotalDelegationSharesWithDenom(denom).BigInt())
	res.Mul(res, new(big.Rat).SetFrac(v.ValidatorSharesWithDenom(denom).BigInt(), a.TotalValidatorShares.BigInt()))
	res.Mul(res, new(big.Rat).SetInt(a.TotalTokens.BigInt()))
	return res
}

// C15: "A successful redelegation moves exactly the requested value from the delegator's position on the
// source validator to their position on the destination validator".
// Amounts are those of an asset with 18 decimals (1000 whole tokens = 1e21 base units) after one take rate deduction.
func TestHuntRedelegationMovesExactValue18Decimals(t *testing.T) {
	whole, _ := math.NewIntFromString("1000000000000000000") // 1e18
	e := newHuntEnv(t, math.LegacyMustNewDecFromStr("0.0137"), 3, 3, whole.MulRaw(1_000_000))
	u1, u2, u3 := e.users[0], e.users[1], e.users[2]
	a, b, c := e.vals[0], e.vals[1], e.vals[2]
	deleg := func(u sdk.AccAddress, v sdk.ValAddress, amt math.Int) {
		require.NoError(t, e.tx(func(ctx sdk.Context) error {
			_, err := e.ms.Delegate(ctx, types.NewMsgDelegate(u.String(), v.String(), sdk.NewCoin(AllianceDenom, amt)))
			return err
		}))
	}
	deleg(u1, a, whole.MulRaw(5000).AddRaw(123456789))
	deleg(u2, a, whole.MulRaw(1777).AddRaw(777))
	deleg(u2, b, whole.MulRaw(3100).AddRaw(31))
	deleg(u3, c, whole.MulRaw(911).AddRaw(7))
	// first end blocker sets the take rate clock, the second one (one interval later) deducts the take rate
	e.endBlock(time.Second)
	e.endBlock(6 * time.Minute)
	e.endBlock(time.Second)
	asset, _ := e.app.AllianceKeeper.GetAssetByDenom(e.ctx, AllianceDenom)
	require.True(t, asset.TotalTokens.LT(whole.MulRaw(5000+1777+3100+911)), "take rate was deducted")

	srcBefore := e.exactPosition(e.ctx, u1, a, AllianceDenom)
	dstBefore := e.exactPosition(e.ctx, u1, b, AllianceDenom)
	othersBefore := new(big.Rat).Add(e.exactPosition(e.ctx, u2, a, AllianceDenom), e.exactPosition(e.ctx, u2, b, AllianceDenom))
	ownSrcBefore, ownDstBefore := e.position(e.ctx, u1, a, AllianceDenom), e.position(e.ctx, u1, b, AllianceDenom)
	// Roughly every second amount is refused with "insufficient tokens" because of the same loss of precision
	// (not part of this property), take the first amount of about 1000 whole tokens that is accepted
	var amount math.Int
	var err error
	for i := int64(0); i < 50; i++ {
		amount = whole.MulRaw(1000 + i).AddRaw(1)
		err = e.tx(func(ctx sdk.Context) error {
			_, err := e.ms.Redelegate(ctx, types.NewMsgRedelegate(u1.String(), a.String(), b.String(), sdk.NewCoin(AllianceDenom, amount)))
			return err
		})
		if err == nil {
			break
		}
		t.Logf("redelegating %s refused: %v", amount, err)
	}
	require.NoError(t, err)
	srcAfter := e.exactPosition(e.ctx, u1, a, AllianceDenom)
	dstAfter := e.exactPosition(e.ctx, u1, b, AllianceDenom)
	othersAfter := new(big.Rat).Add(e.exactPosition(e.ctx, u2, a, AllianceDenom), e.exactPosition(e.ctx, u2, b, AllianceDenom))
	t.Logf("module's own measure (GetDelegationTokens): source %s -> %s, destination %s -> %s",
		ownSrcBefore, e.position(e.ctx, u1, a, AllianceDenom), ownDstBefore, e.position(e.ctx, u1, b, AllianceDenom))
	t.Logf("the other delegator of both validators (did nothing) changed by %s", new(big.Rat).Sub(othersAfter, othersBefore).FloatString(3))

	left := new(big.Rat).Sub(srcBefore, srcAfter)
	arrived := new(big.Rat).Sub(dstAfter, dstBefore)
	want := new(big.Rat).SetInt(amount.BigInt())
	errLeft := new(big.Rat).Sub(left, want)
	errArrived := new(big.Rat).Sub(arrived, want)
	t.Logf("requested %s, left the source position %s (error %s), arrived at the destination position %s (error %s)",
		amount, left.FloatString(3), errLeft.FloatString(3), arrived.FloatString(3), errArrived.FloatString(3))
	one := big.NewRat(1, 1)
	require.True(t, new(big.Rat).Abs(errLeft).Cmp(one) < 0, "source position fell by %s instead of %s", left.FloatString(3), amount)
	require.True(t, new(big.Rat).Abs(errArrived).Cmp(one) < 0, "destination position grew by %s instead of %s", arrived.FloatString(3), amount)
}
