package tests_test

import (
	"testing"
	"time"

	"cosmossdk.io/math"

	sdk "github.com/cosmos/cosmos-sdk/types"
	"github.com/stretchr/testify/assert"
	"github.com/stretchr/testify/require"

	test_helpers "github.com/terra-money/alliance/app"
	"github.com/terra-money/alliance/x/alliance"
	"github.com/terra-money/alliance/x/alliance/keeper"
	"github.com/terra-money/alliance/x/alliance/types"
)

// Clause: "The ... unbonding ... queries return exactly the records matching their filter (delegator ...):
// every pending entry once ... with the amounts and completion times that end-of-block processing will actually use".
//
// Scenario: an alliance is wound down: the (only) delegator undelegates everything, governance deletes
// the alliance (allowed because TotalTokens == 0) while the unbonding is still pending.
// AllianceUnbondingsByDelegator then reports no unbondings although the end blocker will pay the entry.
func TestHuntUnbondingsByDelegatorAfterAllianceDeleted(t *testing.T) {
	app, ctx := createTestContext(t)
	startTime := time.Now().UTC()
	ctx = ctx.WithBlockTime(startTime).WithBlockHeight(1)
	qs := keeper.NewQueryServerImpl(app.AllianceKeeper)
	ms := keeper.MsgServer{Keeper: app.AllianceKeeper}

	// governance creates the alliance
	require.NoError(t, app.AllianceKeeper.CreateAlliance(ctx, &types.MsgCreateAllianceProposal{
		Denom:                AllianceDenom,
		RewardWeight:         math.LegacyOneDec(),
		RewardWeightRange:    types.RewardWeightRange{Min: math.LegacyZeroDec(), Max: math.LegacyNewDec(5)},
		RewardChangeRate:     math.LegacyOneDec(),
		RewardChangeInterval: 0,
		TakeRate:             math.LegacyZeroDec(),
	}))

	unbondingTime, err := app.StakingKeeper.UnbondingTime(ctx)
	require.NoError(t, err)
	delegations, err := app.StakingKeeper.GetAllDelegations(ctx)
	require.NoError(t, err)
	valAddr, err := sdk.ValAddressFromBech32(delegations[0].ValidatorAddress)
	require.NoError(t, err)

	amount := math.NewInt(1000_000_000)
	delAddr := test_helpers.AddTestAddrsIncremental(app, ctx, 1, sdk.NewCoins(sdk.NewCoin(AllianceDenom, amount)))[0]

	_, err = ms.Delegate(ctx, &types.MsgDelegate{DelegatorAddress: delAddr.String(), ValidatorAddress: valAddr.String(), Amount: sdk.NewCoin(AllianceDenom, amount)})
	require.NoError(t, err)
	require.NoError(t, alliance.EndBlocker(ctx, app.AllianceKeeper))

	// next block: undelegate everything
	ctx = ctx.WithBlockTime(startTime.Add(time.Hour)).WithBlockHeight(2)
	_, err = ms.Undelegate(ctx, &types.MsgUndelegate{DelegatorAddress: delAddr.String(), ValidatorAddress: valAddr.String(), Amount: sdk.NewCoin(AllianceDenom, amount)})
	require.NoError(t, err)
	require.NoError(t, alliance.EndBlocker(ctx, app.AllianceKeeper))
	completion := ctx.BlockTime().Add(unbondingTime)

	expected := []types.UnbondingDelegation{{
		ValidatorAddress: valAddr.String(),
		Amount:           amount,
		CompletionTime:   completion,
		Denom:            AllianceDenom,
	}}
	res, err := qs.AllianceUnbondingsByDelegator(ctx, &types.QueryAllianceUnbondingsByDelegatorRequest{DelegatorAddr: delAddr.String()})
	require.NoError(t, err)
	require.Equal(t, expected, res.Unbondings, "before the deletion the query is exact")

	// next block: governance deletes the alliance (no tokens are staked any more)
	ctx = ctx.WithBlockTime(startTime.Add(2 * time.Hour)).WithBlockHeight(3)
	require.NoError(t, app.AllianceKeeper.DeleteAlliance(ctx, &types.MsgDeleteAllianceProposal{Denom: AllianceDenom}))
	require.NoError(t, alliance.EndBlocker(ctx, app.AllianceKeeper))

	// the other two unbonding queries still see the pending entry
	resDenom, err := qs.AllianceUnbondingsByDenomAndDelegator(ctx, &types.QueryAllianceUnbondingsByDenomAndDelegatorRequest{DelegatorAddr: delAddr.String(), Denom: AllianceDenom})
	require.NoError(t, err)
	require.Equal(t, expected, resDenom.Unbondings)
	resVal, err := qs.AllianceUnbondings(ctx, &types.QueryAllianceUnbondingsRequest{DelegatorAddr: delAddr.String(), ValidatorAddr: valAddr.String(), Denom: AllianceDenom})
	require.NoError(t, err)
	require.Equal(t, expected, resVal.Unbondings)

	// the end blocker does pay the entry at maturity (checked on a branch of the state)
	{
		cctx, _ := ctx.CacheContext()
		cctx = cctx.WithBlockTime(completion.Add(time.Second)).WithBlockHeight(4)
		require.True(t, app.BankKeeper.GetBalance(cctx, delAddr, AllianceDenom).IsZero())
		require.NoError(t, alliance.EndBlocker(cctx, app.AllianceKeeper))
		require.Equal(t, amount, app.BankKeeper.GetBalance(cctx, delAddr, AllianceDenom).Amount, "entry is still pending and is paid by the end blocker")
	}

	// PROPERTY: the by-delegator query returns every pending entry of the delegator
	res, err = qs.AllianceUnbondingsByDelegator(ctx, &types.QueryAllianceUnbondingsByDelegatorRequest{DelegatorAddr: delAddr.String()})
	require.NoError(t, err)
	require.Equal(t, expected, res.Unbondings, "AllianceUnbondingsByDelegator must list the pending unbonding that the end blocker will pay")
}

// Clause: "the reported delegation balance is the amount the delegator can undelegate at that moment".
//
// Scenario (an asset with 18 decimals, 3 tokens staked on one validator, no slash, no take rate):
// A delegates 1e18, B delegates 2e18 to the same validator. The delegation query reports for B the
// balance 2000000000000000001 (one unit more than was ever deposited) and MsgUndelegate of exactly that
// balance is rejected.
func TestHuntBalanceIsUndelegatable(t *testing.T) {
	app, ctx := createTestContext(t)
	startTime := time.Now().UTC()
	ctx = ctx.WithBlockTime(startTime).WithBlockHeight(1)
	qs := keeper.NewQueryServerImpl(app.AllianceKeeper)
	ms := keeper.MsgServer{Keeper: app.AllianceKeeper}
	require.NoError(t, app.AllianceKeeper.CreateAlliance(ctx, &types.MsgCreateAllianceProposal{
		Denom:                AllianceDenom,
		RewardWeight:         math.LegacyOneDec(),
		RewardWeightRange:    types.RewardWeightRange{Min: math.LegacyZeroDec(), Max: math.LegacyNewDec(5)},
		RewardChangeRate:     math.LegacyOneDec(),
		RewardChangeInterval: 0,
		TakeRate:             math.LegacyZeroDec(),
	}))
	delegations, err := app.StakingKeeper.GetAllDelegations(ctx)
	require.NoError(t, err)
	valAddr, err := sdk.ValAddressFromBech32(delegations[0].ValidatorAddress)
	require.NoError(t, err)

	unit := math.NewIntWithDecimal(1, 18)
	addrs := test_helpers.AddTestAddrsIncremental(app, ctx, 2, sdk.NewCoins(sdk.NewCoin(AllianceDenom, unit.MulRaw(10))))
	deposits := []math.Int{unit, unit.MulRaw(2)}
	for i, a := range addrs {
		_, err = ms.Delegate(ctx, &types.MsgDelegate{DelegatorAddress: a.String(), ValidatorAddress: valAddr.String(), Amount: sdk.NewCoin(AllianceDenom, deposits[i])})
		require.NoError(t, err)
	}
	require.NoError(t, alliance.EndBlocker(ctx, app.AllianceKeeper))

	ctx = ctx.WithBlockTime(startTime.Add(time.Hour)).WithBlockHeight(2)
	for i, a := range addrs {
		res, err := qs.AllianceDelegation(ctx, &types.QueryAllianceDelegationRequest{DelegatorAddr: a.String(), ValidatorAddr: valAddr.String(), Denom: AllianceDenom})
		require.NoError(t, err)
		bal := res.Delegation.Balance
		t.Logf("delegator %d: deposited %s, shares %s, reported balance %s", i, deposits[i], res.Delegation.Delegation.Shares, bal)

		// PROPERTY: the reported balance can be undelegated right now (checked on a branch of the state)
		cctx, _ := ctx.CacheContext()
		_, err = ms.Undelegate(cctx, &types.MsgUndelegate{DelegatorAddress: a.String(), ValidatorAddress: valAddr.String(), Amount: bal})
		require.NoError(t, err, "delegator %d: query reports balance %s (deposit %s) but undelegating exactly that amount fails", i, bal, deposits[i])
	}
}

// Clause: "The ... unbonding ... queries return exactly the records matching their filter (delegator, validator,
// denom): every pending entry once".
//
// The unbonding queries select index keys with bytes.HasSuffix(key, lenPrefix(denom+0x00)|lenPrefix(delegator)).
// The length prefix of a 46 character denom is the byte 47 == '/', so the key of the denom "ab/"+D ends with the
// suffix built for the denom D. A delegator with unbondings of both denoms (same validator, same block) gets the
// entry of D twice.
func TestHuntUnbondingQueryDenomSuffixCollision(t *testing.T) {
	app, ctx := createTestContext(t)
	startTime := time.Now().UTC()
	ctx = ctx.WithBlockTime(startTime).WithBlockHeight(1)
	qs := keeper.NewQueryServerImpl(app.AllianceKeeper)
	ms := keeper.MsgServer{Keeper: app.AllianceKeeper}

	denomShort := "factory/cosmos1l9hjrqgq4f4sd8ft4l05tfmfwavyl/a" // 46 characters
	require.Len(t, denomShort, 46)
	denomLong := "ab/" + denomShort
	require.NoError(t, sdk.ValidateDenom(denomShort))
	require.NoError(t, sdk.ValidateDenom(denomLong))
	for _, d := range []string{denomShort, denomLong} {
		require.NoError(t, app.AllianceKeeper.CreateAlliance(ctx, &types.MsgCreateAllianceProposal{
			Denom:                d,
			RewardWeight:         math.LegacyOneDec(),
			RewardWeightRange:    types.RewardWeightRange{Min: math.LegacyZeroDec(), Max: math.LegacyNewDec(5)},
			RewardChangeRate:     math.LegacyOneDec(),
			RewardChangeInterval: 0,
			TakeRate:             math.LegacyZeroDec(),
		}))
	}
	unbondingTime, err := app.StakingKeeper.UnbondingTime(ctx)
	require.NoError(t, err)
	delegations, err := app.StakingKeeper.GetAllDelegations(ctx)
	require.NoError(t, err)
	valAddr, err := sdk.ValAddressFromBech32(delegations[0].ValidatorAddress)
	require.NoError(t, err)

	amount := math.NewInt(1000_000)
	delAddr := test_helpers.AddTestAddrsIncremental(app, ctx, 1, sdk.NewCoins(sdk.NewCoin(denomShort, amount), sdk.NewCoin(denomLong, amount)))[0]
	for _, d := range []string{denomShort, denomLong} {
		_, err = ms.Delegate(ctx, &types.MsgDelegate{DelegatorAddress: delAddr.String(), ValidatorAddress: valAddr.String(), Amount: sdk.NewCoin(d, amount)})
		require.NoError(t, err)
	}
	require.NoError(t, alliance.EndBlocker(ctx, app.AllianceKeeper))

	ctx = ctx.WithBlockTime(startTime.Add(time.Hour)).WithBlockHeight(2)
	_, err = ms.Undelegate(ctx, &types.MsgUndelegate{DelegatorAddress: delAddr.String(), ValidatorAddress: valAddr.String(), Amount: sdk.NewCoin(denomShort, math.NewInt(100))})
	require.NoError(t, err)
	_, err = ms.Undelegate(ctx, &types.MsgUndelegate{DelegatorAddress: delAddr.String(), ValidatorAddress: valAddr.String(), Amount: sdk.NewCoin(denomLong, math.NewInt(700))})
	require.NoError(t, err)
	require.NoError(t, alliance.EndBlocker(ctx, app.AllianceKeeper))
	completion := ctx.BlockTime().Add(unbondingTime)

	expected := []types.UnbondingDelegation{{
		ValidatorAddress: valAddr.String(),
		Amount:           math.NewInt(100),
		CompletionTime:   completion,
		Denom:            denomShort,
	}}
	resVal, err := qs.AllianceUnbondings(ctx, &types.QueryAllianceUnbondingsRequest{DelegatorAddr: delAddr.String(), ValidatorAddr: valAddr.String(), Denom: denomShort})
	require.NoError(t, err)
	assert.Equal(t, expected, resVal.Unbondings, "AllianceUnbondings must return the single pending entry of the denom once")
	resDenom, err := qs.AllianceUnbondingsByDenomAndDelegator(ctx, &types.QueryAllianceUnbondingsByDenomAndDelegatorRequest{DelegatorAddr: delAddr.String(), Denom: denomShort})
	require.NoError(t, err)
	require.Equal(t, expected, resDenom.Unbondings, "AllianceUnbondingsByDenomAndDelegator must return the single pending entry of the denom once")
}
