package tests_test

// Probes for property C16 (governance gate and asset-parameter validity).
// All of these PASS on the unmodified code: no new violation of C16 was found.

import (
	"testing"
	"time"

	"cosmossdk.io/math"

	sdk "github.com/cosmos/cosmos-sdk/types"
	authtypes "github.com/cosmos/cosmos-sdk/x/auth/types"
	govtypes "github.com/cosmos/cosmos-sdk/x/gov/types"
	"github.com/stretchr/testify/require"

	test_helpers "github.com/terra-money/alliance/app"
	"github.com/terra-money/alliance/x/alliance"
	"github.com/terra-money/alliance/x/alliance/keeper"
	"github.com/terra-money/alliance/x/alliance/types"
)

func huntAssetValid(t *testing.T, a types.AllianceAsset) {
	t.Helper()
	require.False(t, a.TakeRate.IsNegative(), "takeRate >= 0")
	require.True(t, a.TakeRate.LT(math.LegacyOneDec()), "takeRate < 1")
	require.True(t, a.RewardWeightRange.Min.LTE(a.RewardWeight), "min <= weight: %s %s", a.RewardWeightRange.Min, a.RewardWeight)
	require.True(t, a.RewardWeight.LTE(a.RewardWeightRange.Max), "weight <= max: %s %s", a.RewardWeight, a.RewardWeightRange.Max)
	require.True(t, a.RewardChangeRate.IsPositive(), "changeRate > 0")
	require.True(t, a.RewardChangeInterval >= 0, "changeInterval >= 0")
}

func huntSetup(t *testing.T) (*test_helpers.App, sdk.Context, keeper.MsgServer, string, []sdk.ValAddress, []sdk.AccAddress) {
	app, ctx := createTestContext(t)
	startTime := time.Now().UTC()
	ctx = ctx.WithBlockTime(startTime).WithBlockHeight(1)
	app.AllianceKeeper.InitGenesis(ctx, &types.GenesisState{
		Params: types.Params{
			RewardDelayTime:       time.Hour,
			TakeRateClaimInterval: time.Minute * 5,
			LastTakeRateClaimTime: startTime,
		},
	})
	ms := keeper.MsgServer{Keeper: app.AllianceKeeper}
	gov := authtypes.NewModuleAddress(govtypes.ModuleName).String()

	delegations, err := app.StakingKeeper.GetAllDelegations(ctx)
	require.NoError(t, err)
	valAddr1, err := sdk.ValAddressFromBech32(delegations[0].ValidatorAddress)
	require.NoError(t, err)
	addrs := test_helpers.AddTestAddrsIncremental(app, ctx, 4, sdk.NewCoins(
		sdk.NewCoin(AllianceDenom, math.NewInt(1_000_000_000)),
		sdk.NewCoin(AllianceDenomTwo, math.NewInt(1_000_000_000)),
	))
	return app, ctx, ms, gov, []sdk.ValAddress{valAddr1}, addrs
}

func huntCreate(denom string, gov string) *types.MsgCreateAlliance {
	return &types.MsgCreateAlliance{
		Authority:            gov,
		Denom:                denom,
		RewardWeight:         math.LegacyMustNewDecFromStr("0.5"),
		RewardWeightRange:    types.RewardWeightRange{Min: math.LegacyMustNewDecFromStr("0.1"), Max: math.LegacyNewDec(2)},
		TakeRate:             math.LegacyMustNewDecFromStr("0.1"),
		RewardChangeRate:     math.LegacyMustNewDecFromStr("0.5"),
		RewardChangeInterval: time.Hour,
	}
}

// Gate: none of the four governance messages changes anything for a foreign signer, a rejected
// request leaves the exported state untouched.
func TestHuntProbeGate(t *testing.T) {
	app, ctx, ms, gov, vals, addrs := huntSetup(t)
	_, err := ms.CreateAlliance(ctx, huntCreate(AllianceDenom, gov))
	require.NoError(t, err)
	val, err := app.AllianceKeeper.GetAllianceValidator(ctx, vals[0])
	require.NoError(t, err)
	_, err = app.AllianceKeeper.Delegate(ctx, addrs[0], val, sdk.NewCoin(AllianceDenom, math.NewInt(1000)))
	require.NoError(t, err)
	before := app.AllianceKeeper.ExportGenesis(ctx)

	other := addrs[1].String()
	c := huntCreate(AllianceDenomTwo, other)
	_, err = ms.CreateAlliance(ctx, c)
	require.Error(t, err)
	_, err = ms.UpdateAlliance(ctx, &types.MsgUpdateAlliance{Authority: other, Denom: AllianceDenom,
		RewardWeight: math.LegacyOneDec(), RewardWeightRange: c.RewardWeightRange, TakeRate: math.LegacyZeroDec(),
		RewardChangeRate: math.LegacyOneDec(), RewardChangeInterval: 0})
	require.Error(t, err)
	_, err = ms.DeleteAlliance(ctx, &types.MsgDeleteAlliance{Authority: other, Denom: AllianceDenom})
	require.Error(t, err)
	_, err = ms.UpdateParams(ctx, &types.MsgUpdateParams{Authority: other, Params: types.Params{RewardDelayTime: 1, TakeRateClaimInterval: 1}})
	require.Error(t, err)
	// authority, but invalid values / duplicate / staked
	_, err = ms.CreateAlliance(ctx, huntCreate(AllianceDenom, gov))
	require.ErrorIs(t, err, types.ErrAlreadyExists)
	_, err = ms.DeleteAlliance(ctx, &types.MsgDeleteAlliance{Authority: gov, Denom: AllianceDenom})
	require.ErrorIs(t, err, types.ErrActiveDelegationsExists)
	_, err = ms.UpdateAlliance(ctx, &types.MsgUpdateAlliance{Authority: gov, Denom: AllianceDenom,
		RewardWeight: math.LegacyNewDec(3), RewardWeightRange: c.RewardWeightRange, TakeRate: math.LegacyZeroDec(),
		RewardChangeRate: math.LegacyOneDec(), RewardChangeInterval: 0})
	require.ErrorIs(t, err, types.ErrRewardWeightOutOfBound)
	_, err = ms.UpdateAlliance(ctx, &types.MsgUpdateAlliance{Authority: gov, Denom: AllianceDenom,
		RewardWeight: math.LegacyNewDec(1), RewardWeightRange: c.RewardWeightRange, TakeRate: math.LegacyOneDec(),
		RewardChangeRate: math.LegacyOneDec(), RewardChangeInterval: 0})
	require.Error(t, err)
	_, err = ms.UpdateParams(ctx, &types.MsgUpdateParams{Authority: gov, Params: types.Params{RewardDelayTime: 1, TakeRateClaimInterval: 0}})
	require.Error(t, err)
	_, err = ms.UpdateParams(ctx, &types.MsgUpdateParams{Authority: gov, Params: types.Params{RewardDelayTime: -1, TakeRateClaimInterval: 1}})
	require.Error(t, err)

	// a range that was not filled in (nil decimals) must be rejected (error or recovered panic) without a write
	func() {
		defer func() { _ = recover() }()
		_, err := ms.UpdateAlliance(ctx, &types.MsgUpdateAlliance{Authority: gov, Denom: AllianceDenom,
			RewardWeight: math.LegacyNewDec(1), TakeRate: math.LegacyZeroDec(),
			RewardChangeRate: math.LegacyOneDec(), RewardChangeInterval: 0})
		require.Error(t, err)
	}()
	after := app.AllianceKeeper.ExportGenesis(ctx)
	require.Equal(t, before, after)
}

// Update with delegations on a validator, rewards flowing and a weight change: staked total, share total,
// denom and reward start time stay, the stored asset stays valid. Then decay over many intervals in the end blocker.
func TestHuntProbeUpdateAndDecay(t *testing.T) {
	app, ctx, ms, gov, vals, addrs := huntSetup(t)
	_, err := ms.CreateAlliance(ctx, huntCreate(AllianceDenom, gov))
	require.NoError(t, err)
	val, err := app.AllianceKeeper.GetAllianceValidator(ctx, vals[0])
	require.NoError(t, err)
	_, err = app.AllianceKeeper.Delegate(ctx, addrs[0], val, sdk.NewCoin(AllianceDenom, math.NewInt(1_000_000)))
	require.NoError(t, err)
	_, err = app.AllianceKeeper.Delegate(ctx, addrs[1], val, sdk.NewCoin(AllianceDenom, math.NewInt(333_333)))
	require.NoError(t, err)

	// past the warm-up, some take-rate rounds
	ctx = ctx.WithBlockTime(ctx.BlockTime().Add(time.Hour + time.Minute)).WithBlockHeight(2)
	require.NoError(t, alliance.EndBlocker(ctx, app.AllianceKeeper))
	ctx = ctx.WithBlockTime(ctx.BlockTime().Add(11 * time.Minute)).WithBlockHeight(3)
	require.NoError(t, alliance.EndBlocker(ctx, app.AllianceKeeper))
	a0, _ := app.AllianceKeeper.GetAssetByDenom(ctx, AllianceDenom)
	huntAssetValid(t, a0)
	require.True(t, a0.TotalTokens.LT(math.NewInt(1_333_333)))

	_, err = ms.UpdateAlliance(ctx, &types.MsgUpdateAlliance{Authority: gov, Denom: AllianceDenom,
		RewardWeight:         math.LegacyMustNewDecFromStr("1.5"),
		RewardWeightRange:    types.RewardWeightRange{Min: math.LegacyMustNewDecFromStr("1.2"), Max: math.LegacyMustNewDecFromStr("1.5")},
		TakeRate:             math.LegacyMustNewDecFromStr("0.999999999999999999"),
		RewardChangeRate:     math.LegacyMustNewDecFromStr("0.000000000000000001"),
		RewardChangeInterval: time.Nanosecond})
	require.NoError(t, err)
	a1, _ := app.AllianceKeeper.GetAssetByDenom(ctx, AllianceDenom)
	huntAssetValid(t, a1)
	require.Equal(t, a0.TotalTokens, a1.TotalTokens)
	require.Equal(t, a0.TotalValidatorShares, a1.TotalValidatorShares)
	require.Equal(t, a0.Denom, a1.Denom)
	require.Equal(t, a0.RewardStartTime, a1.RewardStartTime)

	for i := 0; i < 5; i++ {
		ctx = ctx.WithBlockTime(ctx.BlockTime().Add(7 * time.Minute)).WithBlockHeight(ctx.BlockHeight() + 1)
		require.NoError(t, alliance.EndBlocker(ctx, app.AllianceKeeper))
		a, _ := app.AllianceKeeper.GetAssetByDenom(ctx, AllianceDenom)
		huntAssetValid(t, a)
		require.Equal(t, a0.RewardStartTime, a.RewardStartTime)
		require.Equal(t, a0.TotalValidatorShares, a.TotalValidatorShares)
		require.True(t, a.TotalTokens.GTE(math.OneInt()))
	}
	// growth: rate > 1 clamps at max
	_, err = ms.UpdateAlliance(ctx, &types.MsgUpdateAlliance{Authority: gov, Denom: AllianceDenom,
		RewardWeight:         math.LegacyMustNewDecFromStr("1.2"),
		RewardWeightRange:    types.RewardWeightRange{Min: math.LegacyMustNewDecFromStr("-1"), Max: math.LegacyMustNewDecFromStr("1.5")},
		TakeRate:             math.LegacyZeroDec(),
		RewardChangeRate:     math.LegacyMustNewDecFromStr("1.3"),
		RewardChangeInterval: time.Minute})
	require.NoError(t, err) // a negative lower bound is accepted by the message path (not by the legacy proposal); weight stays inside
	ctx = ctx.WithBlockTime(ctx.BlockTime().Add(7 * time.Minute)).WithBlockHeight(ctx.BlockHeight() + 1)
	require.NoError(t, alliance.EndBlocker(ctx, app.AllianceKeeper))
	a, _ := app.AllianceKeeper.GetAssetByDenom(ctx, AllianceDenom)
	huntAssetValid(t, a)
	require.Equal(t, math.LegacyMustNewDecFromStr("1.5"), a.RewardWeight)
}

// Delete: refused as long as anything is staked (also after a slash and partial exits), allowed after the last exit;
// afterwards the denom can be created again exactly once.
func TestHuntProbeDelete(t *testing.T) {
	app, ctx, ms, gov, vals, addrs := huntSetup(t)
	c := huntCreate(AllianceDenom, gov)
	c.TakeRate = math.LegacyZeroDec()
	_, err := ms.CreateAlliance(ctx, c)
	require.NoError(t, err)
	val, err := app.AllianceKeeper.GetAllianceValidator(ctx, vals[0])
	require.NoError(t, err)
	_, err = app.AllianceKeeper.Delegate(ctx, addrs[0], val, sdk.NewCoin(AllianceDenom, math.NewInt(1_000_000)))
	require.NoError(t, err)
	_, err = app.AllianceKeeper.Delegate(ctx, addrs[1], val, sdk.NewCoin(AllianceDenom, math.NewInt(333_333)))
	require.NoError(t, err)

	require.NoError(t, app.AllianceKeeper.SlashValidator(ctx, vals[0], math.LegacyMustNewDecFromStr("0.37")))
	del := func() error {
		_, err := ms.DeleteAlliance(ctx, &types.MsgDeleteAlliance{Authority: gov, Denom: AllianceDenom})
		return err
	}
	require.Error(t, del())
	val, _ = app.AllianceKeeper.GetAllianceValidator(ctx, vals[0])
	_, err = app.AllianceKeeper.Undelegate(ctx, addrs[0], val, sdk.NewCoin(AllianceDenom, math.NewInt(1_000_000)))
	require.NoError(t, err)
	require.Error(t, del())
	_, found := app.AllianceKeeper.GetDelegation(ctx, addrs[1], vals[0], AllianceDenom)
	require.True(t, found)
	val, _ = app.AllianceKeeper.GetAllianceValidator(ctx, vals[0])
	_, err = app.AllianceKeeper.Undelegate(ctx, addrs[1], val, sdk.NewCoin(AllianceDenom, math.NewInt(333_333)))
	require.NoError(t, err)
	a, _ := app.AllianceKeeper.GetAssetByDenom(ctx, AllianceDenom)
	require.True(t, a.TotalTokens.IsZero())
	require.True(t, a.TotalValidatorShares.IsZero())
	_, found = app.AllianceKeeper.GetDelegation(ctx, addrs[1], vals[0], AllianceDenom)
	require.False(t, found)
	require.NoError(t, del())
	// end blocker with the pending undelegations of the deleted denom
	ctx = ctx.WithBlockTime(ctx.BlockTime().Add(22 * 24 * time.Hour)).WithBlockHeight(5)
	require.NoError(t, alliance.EndBlocker(ctx, app.AllianceKeeper))
	require.Equal(t, math.NewInt(1_000_000_000), app.BankKeeper.GetBalance(ctx, addrs[0], AllianceDenom).Amount)

	_, err = ms.CreateAlliance(ctx, c)
	require.NoError(t, err)
	_, err = ms.CreateAlliance(ctx, c)
	require.ErrorIs(t, err, types.ErrAlreadyExists)
	require.Len(t, app.AllianceKeeper.GetAllAssets(ctx), 1)
}

// NOT a C16 violation (none of the C16 clauses is broken, the stored asset stays valid) - side observation only:
// an accepted MsgUpdateAlliance that shortens RewardChangeInterval while a change is already scheduled keeps the old
// LastRewardChangeTime, so the next end blocker raises RewardChangeRate to the power (elapsed / new interval);
// with a rate > 1 LegacyDec.Power panics with "Int overflow" inside EndBlocker (this test FAILS on the unmodified code).
func TestHuntSideOverflow(t *testing.T) {
	app, ctx, ms, gov, _, _ := huntSetup(t)
	c := huntCreate(AllianceDenom, gov)
	c.RewardChangeInterval = 365 * 24 * time.Hour
	_, err := ms.CreateAlliance(ctx, c)
	require.NoError(t, err)
	ctx = ctx.WithBlockTime(ctx.BlockTime().Add(300 * 24 * time.Hour)).WithBlockHeight(2)
	require.NoError(t, alliance.EndBlocker(ctx, app.AllianceKeeper))
	_, err = ms.UpdateAlliance(ctx, &types.MsgUpdateAlliance{Authority: gov, Denom: AllianceDenom,
		RewardWeight: c.RewardWeight, RewardWeightRange: c.RewardWeightRange, TakeRate: c.TakeRate,
		RewardChangeRate: math.LegacyMustNewDecFromStr("1.01"), RewardChangeInterval: time.Second})
	require.NoError(t, err)
	ctx = ctx.WithBlockTime(ctx.BlockTime().Add(5 * time.Second)).WithBlockHeight(3)
	require.NotPanics(t, func() { _ = alliance.EndBlocker(ctx, app.AllianceKeeper) })
	a, _ := app.AllianceKeeper.GetAssetByDenom(ctx, AllianceDenom)
	t.Log(a.RewardWeight, a.LastRewardChangeTime)
}
