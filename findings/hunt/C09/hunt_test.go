package tests_test

import (
	"math/big"
	"testing"
	"time"

	"cosmossdk.io/math"

	authtypes "github.com/cosmos/cosmos-sdk/x/auth/types"
	govtypes "github.com/cosmos/cosmos-sdk/x/gov/types"

	test_helpers "github.com/terra-money/alliance/app"
	"github.com/terra-money/alliance/x/alliance"
	"github.com/terra-money/alliance/x/alliance/keeper"
	"github.com/terra-money/alliance/x/alliance/types"

	sdk "github.com/cosmos/cosmos-sdk/types"
	"github.com/stretchr/testify/require"
)

// huntSetup: one alliance asset with take rate `rate` per interval, rewards already started,
// take-rate clock == startTime.
func huntSetup(t *testing.T, interval time.Duration, rate math.LegacyDec) (*test_helpers.App, sdk.Context, time.Time, sdk.ValAddress) {
	app, ctx := createTestContext(t)
	startTime := time.Now().UTC().Truncate(time.Second)
	ctx = ctx.WithBlockTime(startTime).WithBlockHeight(1)
	app.AllianceKeeper.InitGenesis(ctx, &types.GenesisState{
		Params: types.Params{
			RewardDelayTime:       time.Hour,
			TakeRateClaimInterval: interval,
			LastTakeRateClaimTime: startTime,
		},
		Assets: []types.AllianceAsset{
			types.NewAllianceAsset(AllianceDenom, math.LegacyNewDec(2), math.LegacyZeroDec(), math.LegacyNewDec(5), rate, startTime),
		},
	})
	delegations, err := app.StakingKeeper.GetAllDelegations(ctx)
	require.NoError(t, err)
	valAddr, err := sdk.ValAddressFromBech32(delegations[0].ValidatorAddress)
	require.NoError(t, err)
	return app, ctx, startTime, valAddr
}

func huntBalance(t *testing.T, app *test_helpers.App, ctx sdk.Context, del sdk.AccAddress, val sdk.ValAddress) math.Int {
	qs := keeper.NewQueryServerImpl(app.AllianceKeeper)
	res, err := qs.AllianceDelegation(ctx, &types.QueryAllianceDelegationRequest{
		DelegatorAddr: del.String(),
		ValidatorAddr: val.String(),
		Denom:         AllianceDenom,
	})
	require.NoError(t, err)
	return res.Delegation.Balance.Amount
}

// Defect 1: MsgUpdateParams (governance) writes the whole Params struct, which includes the take-rate clock
// (LastTakeRateClaimTime). A proposal that only wants to change RewardDelayTime necessarily carries the clock value
// that was current when the proposal was written; when it executes (after the voting period) the clock is rewound and
// the next end blocker charges all the intervals since then a second time - also to stake deposited in between.
func TestHuntUpdateParamsRewindsTakeRateClock(t *testing.T) {
	interval := 5 * time.Minute
	rate := math.LegacyMustNewDecFromStr("0.1")
	app, ctx, startTime, valAddr := huntSetup(t, interval, rate)
	ms := keeper.MsgServer{Keeper: app.AllianceKeeper}
	feeCollector := app.AccountKeeper.GetModuleAddress(authtypes.FeeCollectorName)
	moduleAddr := app.AccountKeeper.GetModuleAddress(types.ModuleName)

	addrs := test_helpers.AddTestAddrsIncremental(app, ctx, 2, sdk.NewCoins(sdk.NewCoin(AllianceDenom, math.NewInt(1_000_000_000))))
	user1, user2 := addrs[0], addrs[1]

	_, err := ms.Delegate(ctx, &types.MsgDelegate{DelegatorAddress: user1.String(), ValidatorAddress: valAddr.String(), Amount: sdk.NewCoin(AllianceDenom, math.NewInt(1_000_000_000))})
	require.NoError(t, err)
	require.NoError(t, alliance.EndBlocker(ctx, app.AllianceKeeper))

	// two intervals pass, one block per interval
	height := int64(1)
	nextBlock := func(bt time.Time) {
		height++
		ctx = ctx.WithBlockTime(bt).WithBlockHeight(height)
	}
	for i := 1; i <= 2; i++ {
		nextBlock(startTime.Add(interval*time.Duration(i) + time.Second))
		require.NoError(t, alliance.EndBlocker(ctx, app.AllianceKeeper))
	}
	require.Equal(t, startTime.Add(2*interval), app.AllianceKeeper.LastRewardClaimTime(ctx))

	// A governance proposal is written now: current params, only RewardDelayTime changed.
	proposalParams := app.AllianceKeeper.GetParams(ctx)
	proposalParams.RewardDelayTime = 2 * time.Hour

	// voting period: 8 more intervals pass, take rate is charged every interval
	for i := 3; i <= 10; i++ {
		nextBlock(startTime.Add(interval*time.Duration(i) + time.Second))
		require.NoError(t, alliance.EndBlocker(ctx, app.AllianceKeeper))
	}
	clockBefore := app.AllianceKeeper.LastRewardClaimTime(ctx)
	require.Equal(t, startTime.Add(10*interval), clockBefore)
	assetBefore, _ := app.AllianceKeeper.GetAssetByDenom(ctx, AllianceDenom)
	// sanity: ten single-interval deductions so far
	expected := math.NewInt(1_000_000_000)
	for i := 0; i < 10; i++ {
		expected = math.LegacyOneDec().Sub(rate).MulInt(expected).TruncateInt()
	}
	require.Equal(t, expected, assetBefore.TotalTokens)

	// the proposal passes and is executed in the block at startTime + 10 intervals + 2s
	nextBlock(startTime.Add(10*interval + 2*time.Second))
	govAddr := authtypes.NewModuleAddress(govtypes.ModuleName).String()
	_, err = ms.UpdateParams(ctx, &types.MsgUpdateParams{Authority: govAddr, Params: proposalParams})
	require.NoError(t, err)

	// user2 deposits fresh stake in the same block
	_, err = ms.Delegate(ctx, &types.MsgDelegate{DelegatorAddress: user2.String(), ValidatorAddress: valAddr.String(), Amount: sdk.NewCoin(AllianceDenom, math.NewInt(1_000_000_000))})
	require.NoError(t, err)
	user2Before := huntBalance(t, app, ctx, user2, valAddr)
	assetMid, _ := app.AllianceKeeper.GetAssetByDenom(ctx, AllianceDenom)
	feeBefore := app.BankKeeper.GetBalance(ctx, feeCollector, AllianceDenom).Amount
	custodyBefore := app.BankKeeper.GetBalance(ctx, moduleAddr, AllianceDenom).Amount

	require.NoError(t, alliance.EndBlocker(ctx, app.AllianceKeeper))

	// Property: the deduction charges the n whole intervals since the take-rate clock. The clock stood at
	// startTime+10*interval and the block time is 2s later, so n = 0: nothing may be charged in this block.
	assetAfter, _ := app.AllianceKeeper.GetAssetByDenom(ctx, AllianceDenom)
	feeAfter := app.BankKeeper.GetBalance(ctx, feeCollector, AllianceDenom).Amount
	custodyAfter := app.BankKeeper.GetBalance(ctx, moduleAddr, AllianceDenom).Amount
	user2After := huntBalance(t, app, ctx, user2, valAddr)
	t.Logf("clock before update %s, after update+endblock %s", clockBefore, app.AllianceKeeper.LastRewardClaimTime(ctx))
	t.Logf("total %s -> %s, fee collector +%s, custody -%s, user2 %s -> %s",
		assetMid.TotalTokens, assetAfter.TotalTokens, feeAfter.Sub(feeBefore), custodyBefore.Sub(custodyAfter), user2Before, user2After)

	require.Equal(t, assetMid.TotalTokens.String(), assetAfter.TotalTokens.String(),
		"0 whole intervals elapsed since the take-rate clock, yet the staked total was lowered")
	require.Equal(t, user2Before.String(), user2After.String(),
		"stake deposited in this block was charged for intervals that elapsed (and were already charged) before it was deposited")
	require.False(t, app.AllianceKeeper.LastRewardClaimTime(ctx).Before(clockBefore), "take-rate clock moved backwards")
}

// Defect 2 (same handler): shortening TakeRateClaimInterval re-slices the time that already elapsed under the old
// interval into many new intervals; stake deposited a minute ago is charged dozens of intervals.
func TestHuntShorterIntervalChargesRetroactively(t *testing.T) {
	interval := time.Hour
	rate := math.LegacyMustNewDecFromStr("0.01")
	app, ctx, startTime, valAddr := huntSetup(t, interval, rate)
	ms := keeper.MsgServer{Keeper: app.AllianceKeeper}

	addrs := test_helpers.AddTestAddrsIncremental(app, ctx, 1, sdk.NewCoins(sdk.NewCoin(AllianceDenom, math.NewInt(1_000_000_000))))
	user := addrs[0]
	require.NoError(t, alliance.EndBlocker(ctx, app.AllianceKeeper))

	// 50 minutes into the running 1h interval: governance shortens the interval to 1 minute (clock value untouched)
	ctx = ctx.WithBlockTime(startTime.Add(50 * time.Minute)).WithBlockHeight(2)
	params := app.AllianceKeeper.GetParams(ctx)
	require.Equal(t, startTime, params.LastTakeRateClaimTime)
	params.TakeRateClaimInterval = time.Minute
	govAddr := authtypes.NewModuleAddress(govtypes.ModuleName).String()
	_, err := ms.UpdateParams(ctx, &types.MsgUpdateParams{Authority: govAddr, Params: params})
	require.NoError(t, err)

	// the user deposits in the same block (no stake existed before, so nothing was ever "in progress" for it)
	_, err = ms.Delegate(ctx, &types.MsgDelegate{DelegatorAddress: user.String(), ValidatorAddress: valAddr.String(), Amount: sdk.NewCoin(AllianceDenom, math.NewInt(1_000_000_000))})
	require.NoError(t, err)
	before := huntBalance(t, app, ctx, user, valAddr)
	require.NoError(t, alliance.EndBlocker(ctx, app.AllianceKeeper))
	// next block one second later
	ctx = ctx.WithBlockTime(startTime.Add(50*time.Minute + time.Second)).WithBlockHeight(3)
	require.NoError(t, alliance.EndBlocker(ctx, app.AllianceKeeper))
	after := huntBalance(t, app, ctx, user, valAddr)

	// Property: stake is charged at most the interval in progress for time that elapsed before the deposit.
	minAllowed := math.LegacyOneDec().Sub(rate).MulInt(before).TruncateInt()
	t.Logf("user stake %s -> %s (one interval would leave %s); clock now %s", before, after, minAllowed, app.AllianceKeeper.LastRewardClaimTime(ctx))
	require.True(t, after.GTE(minAllowed),
		"stake deposited one second ago was charged %s (more than one interval at rate %s)", before.Sub(after), rate)
}

// Minor (rounding class): the compounded multiplier (1-r)^n is built with LegacyDec.Power, which rounds half-up to 18
// decimals after every multiplication; for totals above ~1e18 base units the new total differs from floor(T*(1-r)^n).
func TestHuntCompoundingNotExact(t *testing.T) {
	interval := 5 * time.Minute
	rate := math.LegacyMustNewDecFromStr("0.666666666666666667") // 1-r = 0.333333333333333333
	app, ctx, startTime, valAddr := huntSetup(t, interval, rate)
	ms := keeper.MsgServer{Keeper: app.AllianceKeeper}
	stake, _ := math.NewIntFromString("10000000000000000000") // 10 tokens of an 18-decimals asset
	addrs := test_helpers.AddTestAddrsIncremental(app, ctx, 1, sdk.NewCoins(sdk.NewCoin(AllianceDenom, stake)))
	_, err := ms.Delegate(ctx, &types.MsgDelegate{DelegatorAddress: addrs[0].String(), ValidatorAddress: valAddr.String(), Amount: sdk.NewCoin(AllianceDenom, stake)})
	require.NoError(t, err)
	require.NoError(t, alliance.EndBlocker(ctx, app.AllianceKeeper))

	// the next block arrives a bit more than two intervals later: n = 2
	ctx = ctx.WithBlockTime(startTime.Add(2*interval + time.Second)).WithBlockHeight(2)
	require.NoError(t, alliance.EndBlocker(ctx, app.AllianceKeeper))
	require.Equal(t, startTime.Add(2*interval), app.AllianceKeeper.LastRewardClaimTime(ctx))

	// exact floor(T*(1-r)^2) with integers
	one := new(big.Int).Exp(big.NewInt(10), big.NewInt(18), nil)
	q := new(big.Int).Sub(one, rate.BigInt())
	num := new(big.Int).Mul(stake.BigInt(), new(big.Int).Mul(q, q))
	exact := new(big.Int).Quo(num, new(big.Int).Mul(one, one))
	asset, _ := app.AllianceKeeper.GetAssetByDenom(ctx, AllianceDenom)
	require.Equal(t, exact.String(), asset.TotalTokens.String(), "staked total after 2 intervals is not floor(T*(1-r)^2)")
}
