package tests_test

import (
	"bytes"
	"crypto/sha256"
	"encoding/hex"
	"encoding/json"
	"fmt"
	"math/rand"
	"os"
	"os/exec"
	"regexp"
	"testing"
	"time"

	"cosmossdk.io/math"
	storetypes "cosmossdk.io/store/types"
	cmted25519 "github.com/cometbft/cometbft/crypto/ed25519"
	tmtypes "github.com/cometbft/cometbft/types"
	"github.com/cosmos/cosmos-sdk/crypto/keys/secp256k1"
	sdk "github.com/cosmos/cosmos-sdk/types"
	"github.com/cosmos/cosmos-sdk/types/module"
	authtypes "github.com/cosmos/cosmos-sdk/x/auth/types"
	banktypes "github.com/cosmos/cosmos-sdk/x/bank/types"
	distrtypes "github.com/cosmos/cosmos-sdk/x/distribution/types"
	minttypes "github.com/cosmos/cosmos-sdk/x/mint/types"
	teststaking "github.com/cosmos/cosmos-sdk/x/staking/testutil"
	stakingtypes "github.com/cosmos/cosmos-sdk/x/staking/types"
	"github.com/stretchr/testify/require"

	test_helpers "github.com/terra-money/alliance/app"
	"github.com/terra-money/alliance/x/alliance"
	"github.com/terra-money/alliance/x/alliance/keeper"
	migrationsv4 "github.com/terra-money/alliance/x/alliance/migrations/v4"
	"github.com/terra-money/alliance/x/alliance/types"
)

// ---------------------------------------------------------------------------------------------------------------
// helpers
// ---------------------------------------------------------------------------------------------------------------

var huntBaseTime = time.Unix(1_700_000_000, 0).UTC()

// huntSetup builds an app whose genesis does not contain any random key material, two runs start from
// byte-identical state
func huntSetup(t *testing.T) (*test_helpers.App, sdk.Context) {
	t.Helper()
	pv := cmted25519.GenPrivKeyFromSecret([]byte("hunt-c19-validator"))
	validator := tmtypes.NewValidator(pv.PubKey(), 1)
	valSet := tmtypes.NewValidatorSet([]*tmtypes.Validator{validator})
	senderPrivKey := secp256k1.GenPrivKeyFromSecret([]byte("hunt-c19-account"))
	acc := authtypes.NewBaseAccount(senderPrivKey.PubKey().Address().Bytes(), senderPrivKey.PubKey(), 0, 0)
	balance := banktypes.Balance{
		Address: acc.GetAddress().String(),
		Coins:   sdk.NewCoins(sdk.NewCoin(sdk.DefaultBondDenom, math.NewInt(100000000000000))),
	}
	app := test_helpers.SetupWithGenesisValSet(t, valSet, []authtypes.GenesisAccount{acc}, balance)
	ctx := app.NewContext(true).WithBlockTime(huntBaseTime).WithBlockHeight(1)
	return app, ctx
}

func huntDumpStore(ctx sdk.Context, key storetypes.StoreKey) string {
	h := sha256.New()
	store := ctx.KVStore(key)
	iter := store.Iterator(nil, nil)
	defer iter.Close()
	n := 0
	for ; iter.Valid(); iter.Next() {
		h.Write([]byte(fmt.Sprintf("%d:", len(iter.Key()))))
		h.Write(iter.Key())
		h.Write([]byte(fmt.Sprintf("%d:", len(iter.Value()))))
		h.Write(iter.Value())
		n++
	}
	return fmt.Sprintf("%d/%s", n, hex.EncodeToString(h.Sum(nil)))
}

type huntRun struct {
	Stores  map[string]string
	Events  string
	Results []string
	Genesis string
}

// huntScenario drives the module through its entry points with fixed block times and heights
func huntScenario(t *testing.T) huntRun {
	t.Helper()
	app, ctx := huntSetup(t)
	ctx = ctx.WithEventManager(sdk.NewEventManager())
	res := huntRun{Stores: map[string]string{}}
	record := func(format string, a ...interface{}) { res.Results = append(res.Results, fmt.Sprintf(format, a...)) }

	app.AllianceKeeper.InitGenesis(ctx, &types.GenesisState{
		Params: types.Params{RewardDelayTime: time.Hour, TakeRateClaimInterval: time.Minute, LastTakeRateClaimTime: huntBaseTime},
		Assets: []types.AllianceAsset{
			{
				Denom: "aaa", RewardWeight: math.LegacyNewDec(2), TakeRate: math.LegacyMustNewDecFromStr("0.00001"),
				RewardWeightRange: types.RewardWeightRange{Min: math.LegacyZeroDec(), Max: math.LegacyNewDec(50)},
				TotalTokens:       math.ZeroInt(), TotalValidatorShares: math.LegacyZeroDec(),
				RewardStartTime: huntBaseTime, RewardChangeRate: math.LegacyMustNewDecFromStr("0.99"), RewardChangeInterval: 90 * time.Second,
				LastRewardChangeTime: huntBaseTime,
			},
			{
				Denom: "bbb", RewardWeight: math.LegacyNewDec(10), TakeRate: math.LegacyZeroDec(),
				RewardWeightRange: types.RewardWeightRange{Min: math.LegacyNewDec(1), Max: math.LegacyNewDec(50)},
				TotalTokens:       math.ZeroInt(), TotalValidatorShares: math.LegacyZeroDec(),
				RewardStartTime: huntBaseTime, RewardChangeRate: math.LegacyOneDec(), LastRewardChangeTime: huntBaseTime,
			},
			{
				Denom: "ccc", RewardWeight: math.LegacyMustNewDecFromStr("0.5"), TakeRate: math.LegacyMustNewDecFromStr("0.0001"),
				RewardWeightRange: types.RewardWeightRange{Min: math.LegacyZeroDec(), Max: math.LegacyNewDec(50)},
				TotalTokens:       math.ZeroInt(), TotalValidatorShares: math.LegacyZeroDec(),
				RewardStartTime: huntBaseTime.Add(3 * time.Minute), RewardChangeRate: math.LegacyOneDec(), LastRewardChangeTime: huntBaseTime.Add(3 * time.Minute),
			},
		},
	})

	coins := sdk.NewCoins(
		sdk.NewCoin("aaa", math.NewInt(50_000_000)),
		sdk.NewCoin("bbb", math.NewInt(50_000_000)),
		sdk.NewCoin("ccc", math.NewInt(50_000_000)),
	)
	addrs := test_helpers.AddTestAddrsIncremental(app, ctx, 6, coins)
	pks := test_helpers.CreateTestPubKeys(3)
	var valAddrs []sdk.ValAddress
	for i := 0; i < 3; i++ {
		valAddr := sdk.ValAddress(addrs[i])
		v := teststaking.NewValidator(t, valAddr, pks[i])
		v.Commission = stakingtypes.Commission{
			CommissionRates: stakingtypes.CommissionRates{
				Rate: math.LegacyNewDecWithPrec(int64(i), 1), MaxRate: math.LegacyOneDec(), MaxChangeRate: math.LegacyZeroDec(),
			},
			UpdateTime: huntBaseTime,
		}
		test_helpers.RegisterNewValidator(t, app, ctx, v)
		valAddrs = append(valAddrs, valAddr)
	}
	users := addrs[3:]
	msgServer := keeper.NewMsgServerImpl(app.AllianceKeeper)
	authority := app.AllianceKeeper.GetAuthority()

	endBlock := func() {
		_, err := app.StakingKeeper.EndBlocker(ctx)
		require.NoError(t, err)
		require.NoError(t, alliance.EndBlocker(ctx, app.AllianceKeeper))
	}
	nextBlock := func(d time.Duration) {
		ctx = ctx.WithBlockHeight(ctx.BlockHeight() + 1).WithBlockTime(ctx.BlockTime().Add(d))
	}
	reward := func(amount int64) {
		// rewards reach the module through x/distribution, as on a chain
		c := sdk.NewCoins(sdk.NewCoin(sdk.DefaultBondDenom, math.NewInt(amount)))
		require.NoError(t, app.BankKeeper.MintCoins(ctx, minttypes.ModuleName, c))
		require.NoError(t, app.BankKeeper.SendCoinsFromModuleToModule(ctx, minttypes.ModuleName, distrtypes.ModuleName, c))
		for _, valAddr := range valAddrs {
			val, err := app.StakingKeeper.GetValidator(ctx, valAddr)
			require.NoError(t, err)
			require.NoError(t, app.DistrKeeper.AllocateTokensToValidator(ctx, val, sdk.NewDecCoinsFromCoins(sdk.NewCoin(sdk.DefaultBondDenom, math.NewInt(amount/3)))))
		}
	}

	denoms := []string{"aaa", "bbb", "ccc"}
	for ui, user := range users {
		for vi, valAddr := range valAddrs {
			for di, denom := range denoms {
				amt := int64(1_000_000 + 333_333*ui + 77_777*vi + 1_234*di)
				_, err := msgServer.Delegate(ctx, types.NewMsgDelegate(user.String(), valAddr.String(), sdk.NewCoin(denom, math.NewInt(amt))))
				require.NoError(t, err)
			}
		}
	}
	endBlock()

	for block := 0; block < 12; block++ {
		nextBlock(35 * time.Second)
		reward(int64(3_000_000 + 1111*block))
		switch block {
		case 1:
			_, err := msgServer.UpdateAlliance(ctx, &types.MsgUpdateAlliance{
				Authority: authority, Denom: "bbb", RewardWeight: math.LegacyNewDec(7), TakeRate: math.LegacyMustNewDecFromStr("0.00002"),
				RewardChangeRate: math.LegacyMustNewDecFromStr("1.01"), RewardChangeInterval: 50 * time.Second,
				RewardWeightRange: types.RewardWeightRange{Min: math.LegacyNewDec(1), Max: math.LegacyNewDec(50)},
			})
			require.NoError(t, err)
		case 2:
			_, err := msgServer.Redelegate(ctx, types.NewMsgRedelegate(users[0].String(), valAddrs[0].String(), valAddrs[1].String(), sdk.NewCoin("aaa", math.NewInt(400_000))))
			require.NoError(t, err)
			_, err = msgServer.Redelegate(ctx, types.NewMsgRedelegate(users[1].String(), valAddrs[0].String(), valAddrs[2].String(), sdk.NewCoin("bbb", math.NewInt(123_456))))
			require.NoError(t, err)
		case 3:
			_, err := msgServer.Undelegate(ctx, types.NewMsgUndelegate(users[2].String(), valAddrs[0].String(), sdk.NewCoin("ccc", math.NewInt(500_000))))
			require.NoError(t, err)
			_, err = msgServer.Undelegate(ctx, types.NewMsgUndelegate(users[2].String(), valAddrs[0].String(), sdk.NewCoin("aaa", math.NewInt(250_000))))
			require.NoError(t, err)
		case 4:
			val, err := app.StakingKeeper.GetValidator(ctx, valAddrs[0])
			require.NoError(t, err)
			consAddr, err := val.GetConsAddr()
			require.NoError(t, err)
			power := val.GetConsensusPower(app.StakingKeeper.PowerReduction(ctx))
			require.NoError(t, app.SlashingKeeper.Slash(ctx, consAddr, math.LegacyMustNewDecFromStr("0.05"), power, ctx.BlockHeight()-2))
		case 6, 9:
			for _, user := range users {
				for _, valAddr := range valAddrs {
					for _, denom := range denoms {
						before := app.BankKeeper.GetAllBalances(ctx, user)
						_, err := msgServer.ClaimDelegationRewards(ctx, types.NewMsgClaimDelegationRewards(user.String(), valAddr.String(), denom))
						require.NoError(t, err)
						record("claim %s %s %s -> %s", user, valAddr, denom, app.BankKeeper.GetAllBalances(ctx, user).Sub(before...))
					}
				}
			}
		case 7:
			_, err := msgServer.UpdateAlliance(ctx, &types.MsgUpdateAlliance{
				Authority: authority, Denom: "ccc", RewardWeight: math.LegacyNewDec(3), TakeRate: math.LegacyMustNewDecFromStr("0.0001"),
				RewardChangeRate: math.LegacyOneDec(), RewardChangeInterval: 0,
				RewardWeightRange: types.RewardWeightRange{Min: math.LegacyZeroDec(), Max: math.LegacyNewDec(50)},
			})
			require.NoError(t, err)
		}
		endBlock()
	}

	qs := keeper.NewQueryServerImpl(app.AllianceKeeper)
	dels, err := qs.AllAlliancesDelegations(ctx, &types.QueryAllAlliancesDelegationsRequest{})
	require.NoError(t, err)
	record("delegations %s", dels.String())
	vals, err := qs.AllAllianceValidators(ctx, &types.QueryAllAllianceValidatorsRequest{})
	require.NoError(t, err)
	record("validators %s", vals.String())
	for _, user := range users {
		unb, err := qs.AllianceUnbondingsByDelegator(ctx, &types.QueryAllianceUnbondingsByDelegatorRequest{DelegatorAddr: user.String()})
		require.NoError(t, err)
		record("unbondings %s", unb.String())
		red, err := qs.AllianceRedelegationsByDelegator(ctx, &types.QueryAllianceRedelegationsByDelegatorRequest{DelegatorAddr: user.String()})
		require.NoError(t, err)
		record("redelegations %s", red.String())
	}
	supply, err := app.BankKeeper.TotalSupply(ctx, &banktypes.QueryTotalSupplyRequest{})
	require.NoError(t, err)
	record("supply %s", supply.String())

	for _, name := range []string{types.StoreKey, banktypes.StoreKey, stakingtypes.StoreKey, distrtypes.StoreKey} {
		res.Stores[name] = huntDumpStore(ctx, app.GetKey(name))
	}
	evs, err := json.Marshal(ctx.EventManager().ABCIEvents())
	require.NoError(t, err)
	res.Events = string(evs)
	res.Genesis = string(app.AppCodec().MustMarshalJSON(app.AllianceKeeper.ExportGenesis(ctx)))
	return res
}

// ---------------------------------------------------------------------------------------------------------------
// Candidate 1 (refuted): the same sequence of messages, callbacks and block boundaries applied twice
// ---------------------------------------------------------------------------------------------------------------

func TestHuntSameSequenceTwice(t *testing.T) {
	a := huntScenario(t)
	b := huntScenario(t)
	require.NotEmpty(t, a.Results)
	require.Equal(t, a.Stores, b.Stores, "module, bank, staking and distribution state must be byte-identical")
	require.Equal(t, a.Results, b.Results, "results must be identical")
	require.Equal(t, a.Events, b.Events, "events must be identical")
	require.Equal(t, a.Genesis, b.Genesis, "exported state must be identical")
}

// ---------------------------------------------------------------------------------------------------------------
// Candidate 2: the module's genesis generator for the simulator (AppModule.GenerateGenesisState) reads the wall clock
// ---------------------------------------------------------------------------------------------------------------

func huntSimGenesis(seed int64) json.RawMessage {
	simState := &module.SimulationState{
		Cdc:          test_helpers.MakeTestEncodingConfig().Codec,
		Rand:         rand.New(rand.NewSource(seed)),
		GenState:     map[string]json.RawMessage{},
		GenTimestamp: huntBaseTime,
	}
	// silence the Printf of the generator
	stdout := os.Stdout
	if devnull, err := os.Open(os.DevNull); err == nil {
		os.Stdout = devnull
		defer func() { os.Stdout = stdout; devnull.Close() }()
	}
	alliance.AppModule{}.GenerateGenesisState(simState)
	return simState.GenState[types.ModuleName]
}

func TestHuntSimulationGenesisUsesWallClock(t *testing.T) {
	// The same seed and the same genesis timestamp: everything the generator may depend on is fixed
	a := huntSimGenesis(7)
	time.Sleep(5 * time.Millisecond)
	b := huntSimGenesis(7)
	var g types.GenesisState
	test_helpers.MakeTestEncodingConfig().Codec.MustUnmarshalJSON(a, &g)
	require.NotEmpty(t, g.Assets, "seed must generate alliance assets")
	require.Equal(t, string(a), string(b), "genesis state generated from the same seed and GenTimestamp must be byte-identical")
}

// ---------------------------------------------------------------------------------------------------------------
// Candidate 3: the v3->v4 store migration writes math.MaxInt, a constant whose value depends on the word size of
// the machine that runs the node
// ---------------------------------------------------------------------------------------------------------------

func huntMigratedAsset(t *testing.T) []byte {
	app, ctx := huntSetup(t)
	app.AllianceKeeper.InitGenesis(ctx, &types.GenesisState{
		Params: types.DefaultParams(),
		Assets: []types.AllianceAsset{
			{
				Denom: "aaa", RewardWeight: math.LegacyNewDec(2), TakeRate: math.LegacyZeroDec(),
				TotalTokens: math.ZeroInt(), TotalValidatorShares: math.LegacyZeroDec(),
				RewardStartTime: huntBaseTime, RewardChangeRate: math.LegacyOneDec(), LastRewardChangeTime: huntBaseTime,
			},
		},
	})
	require.NoError(t, migrationsv4.Migrate(app.AllianceKeeper)(ctx))
	bz, err := app.AllianceKeeper.StoreService().OpenKVStore(ctx).Get(types.GetAssetKey("aaa"))
	require.NoError(t, err)
	return bz
}

// TestHuntV4Dump prints the asset record that the migration wrote, it is run by TestHuntMigrationV4WordSize on the other architecture
func TestHuntV4Dump(t *testing.T) {
	if os.Getenv("HUNT_V4_DUMP") == "" {
		t.Skip("helper of TestHuntMigrationV4WordSize")
	}
	fmt.Printf("HUNTV4=%s\n", hex.EncodeToString(huntMigratedAsset(t)))
}

func TestHuntMigrationV4WordSize(t *testing.T) {
	local := hex.EncodeToString(huntMigratedAsset(t))

	// The same code, the same starting state, the same migration on a 32 bit build of the node
	cmd := exec.Command("go", "test", "-vet=off", "-count=1", "./x/alliance/keeper/tests/", "-run", "TestHuntV4Dump$", "-v")
	cmd.Dir = "../../../.."
	cmd.Env = append(os.Environ(), "GOARCH=386", "CGO_ENABLED=0", "HUNT_V4_DUMP=1")
	var out bytes.Buffer
	cmd.Stdout = &out
	cmd.Stderr = &out
	if err := cmd.Run(); err != nil {
		t.Skipf("cannot build/run a 32 bit test binary here: %v\n%s", err, out.String())
	}
	m := regexp.MustCompile(`HUNTV4=([0-9a-f]+)`).FindStringSubmatch(out.String())
	require.NotNil(t, m, out.String())

	var localAsset, otherAsset types.AllianceAsset
	app, _ := huntSetup(t)
	bz, _ := hex.DecodeString(local)
	app.AppCodec().MustUnmarshal(bz, &localAsset)
	bz, _ = hex.DecodeString(m[1])
	app.AppCodec().MustUnmarshal(bz, &otherAsset)
	t.Logf("amd64 RewardWeightRange.Max = %s", localAsset.RewardWeightRange.Max)
	t.Logf("386   RewardWeightRange.Max = %s", otherAsset.RewardWeightRange.Max)
	require.Equal(t, local, m[1], "the migrated asset record must be byte-identical on every node")
}
