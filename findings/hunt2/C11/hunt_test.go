package tests_test

import (
	"fmt"
	"math/rand"
	"testing"
	"time"

	"cosmossdk.io/math"
	abci "github.com/cometbft/cometbft/abci/types"
	cryptocodec "github.com/cosmos/cosmos-sdk/crypto/codec"
	sdk "github.com/cosmos/cosmos-sdk/types"
	"github.com/cosmos/cosmos-sdk/types/query"
	authtypes "github.com/cosmos/cosmos-sdk/x/auth/types"
	banktypes "github.com/cosmos/cosmos-sdk/x/bank/types"
	slashingkeeper "github.com/cosmos/cosmos-sdk/x/slashing/keeper"
	slashingtypes "github.com/cosmos/cosmos-sdk/x/slashing/types"
	stakingkeeper "github.com/cosmos/cosmos-sdk/x/staking/keeper"
	stakingtypes "github.com/cosmos/cosmos-sdk/x/staking/types"
	"github.com/stretchr/testify/require"

	test_helpers "github.com/terra-money/alliance/app"
	custombankkeeper "github.com/terra-money/alliance/custom/bank/keeper"
	"github.com/terra-money/alliance/x/alliance/keeper"
	"github.com/terra-money/alliance/x/alliance/types"
)

var _ = cryptocodec.FromCmtPubKeyInterface

type huntEnv struct {
	t        *testing.T
	app      *test_helpers.App
	ctx      sdk.Context
	bond     string
	modAddr  sdk.AccAddress
	stakeMsg stakingtypes.MsgServer
	allMsg   types.MsgServer
	gov      string
}

func newHuntEnv(t *testing.T) *huntEnv {
	app, ctx := createTestContext(t)
	ctx = ctx.WithBlockTime(time.Unix(1_700_000_000, 0).UTC()).WithBlockHeight(2)
	bond, err := app.StakingKeeper.BondDenom(ctx)
	require.NoError(t, err)
	return &huntEnv{
		t: t, app: app, ctx: ctx, bond: bond,
		modAddr:  app.AccountKeeper.GetModuleAddress(types.ModuleName),
		stakeMsg: stakingkeeper.NewMsgServerImpl(app.StakingKeeper),
		allMsg:   keeper.NewMsgServerImpl(app.AllianceKeeper),
		gov:      authtypes.NewModuleAddress("gov").String(),
	}
}

// moduleStake returns the value of everything the module account has staked, on bonded validators and on all validators
func (e *huntEnv) moduleStake() (bonded math.Int, all math.Int) {
	bonded, all = math.ZeroInt(), math.ZeroInt()
	dels, err := e.app.StakingKeeper.GetDelegatorDelegations(e.ctx, e.modAddr, 1000)
	require.NoError(e.t, err)
	for _, d := range dels {
		valAddr, _ := sdk.ValAddressFromBech32(d.ValidatorAddress)
		v, err := e.app.StakingKeeper.GetValidator(e.ctx, valAddr)
		require.NoError(e.t, err)
		tok := v.TokensFromShares(d.Shares).TruncateInt()
		all = all.Add(tok)
		if v.IsBonded() {
			bonded = bonded.Add(tok)
		}
	}
	return
}

func (e *huntEnv) netSupply() math.Int {
	_, all := e.moduleStake()
	return e.app.BankKeeper.GetSupply(e.ctx, e.bond).Amount.Sub(all)
}

func (e *huntEnv) createValidator(operator sdk.AccAddress, idx int, self int64) sdk.ValAddress {
	pk := test_helpers.CreateTestPubKeys(idx + 1)[idx]
	valAddr := sdk.ValAddress(operator)
	msg, err := stakingtypes.NewMsgCreateValidator(valAddr.String(), pk, sdk.NewCoin(e.bond, math.NewInt(self)),
		stakingtypes.NewDescription(fmt.Sprintf("v%d", idx), "", "", "", ""),
		stakingtypes.NewCommissionRates(math.LegacyZeroDec(), math.LegacyOneDec(), math.LegacyOneDec()), math.OneInt())
	require.NoError(e.t, err)
	_, err = e.stakeMsg.CreateValidator(e.ctx, msg)
	require.NoError(e.t, err)
	return valAddr
}

// nextBlock ends the current block with the real end blockers and begins the next one with the real begin blockers
func (e *huntEnv) endBlock() {
	_, err := e.app.EndBlocker(e.ctx)
	require.NoError(e.t, err)
}

func (e *huntEnv) beginBlock(dt time.Duration) { e.beginBlockAbsent(dt, nil) }

func (e *huntEnv) beginBlockAbsent(dt time.Duration, absent map[string]bool) {
	// votes of the validators that are bonded at the end of the previous block
	var votes []abci.VoteInfo
	vals, err := e.app.StakingKeeper.GetBondedValidatorsByPower(e.ctx)
	require.NoError(e.t, err)
	for _, v := range vals {
		cons, err := v.GetConsAddr()
		require.NoError(e.t, err)
		if _, err := e.app.SlashingKeeper.GetValidatorSigningInfo(e.ctx, cons); err != nil {
			continue // the validator of the test genesis has no signing info (artefact of the test setup)
		}
		votes = append(votes, abci.VoteInfo{
			Validator:   abci.Validator{Address: cons, Power: v.ConsensusPower(e.app.StakingKeeper.PowerReduction(e.ctx))},
			BlockIdFlag: 2, // commit
		})
		if absent[v.OperatorAddress] {
			votes[len(votes)-1].BlockIdFlag = 1
		}
	}
	e.ctx = e.ctx.WithBlockHeight(e.ctx.BlockHeight() + 1).WithBlockTime(e.ctx.BlockTime().Add(dt)).WithVoteInfos(votes)
	if len(vals) > 0 {
		cons, _ := vals[0].GetConsAddr()
		e.ctx = e.ctx.WithProposer(cons)
	}
	_, err = e.app.BeginBlocker(e.ctx)
	require.NoError(e.t, err)
}

func (e *huntEnv) fund(addr sdk.AccAddress, coins sdk.Coins) {
	require.NoError(e.t, e.app.BankKeeper.MintCoins(e.ctx, "mint", coins))
	require.NoError(e.t, e.app.BankKeeper.SendCoinsFromModuleToAccount(e.ctx, "mint", addr, coins))
}

func (e *huntEnv) supplyOf() math.Int {
	res, err := e.app.BankKeeper.SupplyOf(e.ctx, &banktypes.QuerySupplyOfRequest{Denom: e.bond})
	require.NoError(e.t, err)
	return res.Amount.Amount
}

// TestHuntStress drives random alliance and staking operations through the msg servers and the real begin / end
// blockers and checks the clauses of C11 at every block end
func TestHuntStress(t *testing.T) {
	for seed := int64(1); seed <= 6; seed++ {
		seed := seed
		t.Run(fmt.Sprintf("seed%d", seed), func(t *testing.T) { huntStress(t, seed) })
	}
}

func huntStress(t *testing.T, seed int64) {
	e := newHuntEnv(t)
	r := rand.New(rand.NewSource(seed))
	app := e.app

	// staking params: few validator slots so that validators enter and leave the active set
	sp, err := app.StakingKeeper.GetParams(e.ctx)
	require.NoError(t, err)
	sp.MaxValidators = 3
	sp.UnbondingTime = 10 * time.Minute
	require.NoError(t, app.StakingKeeper.SetParams(e.ctx, sp))

	_, err = e.allMsg.UpdateParams(e.ctx, &types.MsgUpdateParams{Authority: e.gov, Params: types.Params{
		RewardDelayTime: 5 * time.Minute, TakeRateClaimInterval: 5 * time.Minute, LastTakeRateClaimTime: e.ctx.BlockTime()}})
	require.NoError(t, err)
	slp, err := app.SlashingKeeper.GetParams(e.ctx)
	require.NoError(t, err)
	slp.SignedBlocksWindow = 6
	slp.MinSignedPerWindow = math.LegacyMustNewDecFromStr("0.5")
	slp.DowntimeJailDuration = 2 * time.Minute
	slp.SlashFractionDowntime = math.LegacyMustNewDecFromStr("0.03")
	require.NoError(t, app.SlashingKeeper.SetParams(e.ctx, slp))

	addrs := test_helpers.AddTestAddrsIncremental(app, e.ctx, 10, sdk.NewCoins(
		sdk.NewCoin(e.bond, math.NewInt(1_000_000_000)),
		sdk.NewCoin(AllianceDenom, math.NewInt(1_000_000_000)),
		sdk.NewCoin(AllianceDenomTwo, math.NewInt(1_000_000_000)),
	))
	var valAddrs []sdk.ValAddress
	for i := 0; i < 4; i++ {
		valAddrs = append(valAddrs, e.createValidator(addrs[i], i, int64(2_000_000+i*500_000)))
	}
	users := addrs[4:]

	_, err = e.allMsg.CreateAlliance(e.ctx, &types.MsgCreateAlliance{Authority: e.gov, Denom: AllianceDenom,
		RewardWeight: math.LegacyMustNewDecFromStr("0.3"), RewardWeightRange: types.RewardWeightRange{Min: math.LegacyZeroDec(), Max: math.LegacyNewDec(5)},
		TakeRate: math.LegacyMustNewDecFromStr("0.0001"), RewardChangeRate: math.LegacyMustNewDecFromStr("0.99"), RewardChangeInterval: 3 * time.Minute})
	require.NoError(t, err)
	_, err = e.allMsg.CreateAlliance(e.ctx, &types.MsgCreateAlliance{Authority: e.gov, Denom: AllianceDenomTwo,
		RewardWeight: math.LegacyMustNewDecFromStr("1.7"), RewardWeightRange: types.RewardWeightRange{Min: math.LegacyZeroDec(), Max: math.LegacyNewDec(5)},
		TakeRate: math.LegacyZeroDec(), RewardChangeRate: math.LegacyOneDec(), RewardChangeInterval: 0})
	require.NoError(t, err)
	denoms := []string{AllianceDenom, AllianceDenomTwo}

	e.endBlock()
	net0 := e.netSupply()

	stats := map[string]int{}
	var absent map[string]bool
	defer func() { t.Logf("stats %v", stats) }()
	for block := 0; block < 150; block++ {
		if block%20 == 0 {
			absent = map[string]bool{valAddrs[r.Intn(len(valAddrs))].String(): true}
		} else if block%20 == 8 {
			absent = nil
		}
		e.beginBlockAbsent(time.Minute, absent)
		// jailed validators come back
		for _, va := range valAddrs {
			v, _ := app.StakingKeeper.GetValidator(e.ctx, va)
			if v.Jailed && r.Intn(6) == 0 {
				cctx, write := e.ctx.CacheContext()
				if _, err := slashingkeeper.NewMsgServerImpl(app.SlashingKeeper).Unjail(cctx, slashingtypes.NewMsgUnjail(va.String())); err == nil {
					write()
					stats["unjail"]++
				}
			}
			if v.Jailed {
				stats["jailedblocks"]++
			}
		}
		// fees of the block
		fees := sdk.NewCoins(sdk.NewCoin(e.bond, math.NewInt(int64(1000+r.Intn(100000)))))
		require.NoError(t, app.BankKeeper.MintCoins(e.ctx, "mint", fees))
		require.NoError(t, app.BankKeeper.SendCoinsFromModuleToModule(e.ctx, "mint", authtypes.FeeCollectorName, fees))
		net0 = e.netSupply() // fees are minted for the test, slashes of the begin block burn: take the reference here

		nOps := r.Intn(4)
		for i := 0; i < nOps; i++ {
			user := users[r.Intn(len(users))]
			val := valAddrs[r.Intn(len(valAddrs))]
			val2 := valAddrs[r.Intn(len(valAddrs))]
			denom := denoms[r.Intn(2)]
			amt := math.NewInt(int64(1 + r.Intn(5_000_000)))
			cctx, write := e.ctx.CacheContext()
			saved := e.ctx
			e.ctx = cctx
			var err error
			op := r.Intn(9)
			switch op {
			case 0, 1:
				_, err = e.allMsg.Delegate(cctx, types.NewMsgDelegate(user.String(), val.String(), sdk.NewCoin(denom, amt)))
			case 2:
				_, err = e.allMsg.Undelegate(cctx, types.NewMsgUndelegate(user.String(), val.String(), sdk.NewCoin(denom, amt)))
			case 3:
				_, err = e.allMsg.Redelegate(cctx, types.NewMsgRedelegate(user.String(), val.String(), val2.String(), sdk.NewCoin(denom, amt)))
			case 4:
				_, err = e.allMsg.ClaimDelegationRewards(cctx, types.NewMsgClaimDelegationRewards(user.String(), val.String(), denom))
			case 5:
				_, err = e.stakeMsg.Delegate(cctx, stakingtypes.NewMsgDelegate(user.String(), val.String(), sdk.NewCoin(e.bond, amt)))
			case 6:
				_, err = e.stakeMsg.Undelegate(cctx, stakingtypes.NewMsgUndelegate(user.String(), val.String(), sdk.NewCoin(e.bond, amt)))
			case 7:
				_, err = e.stakeMsg.BeginRedelegate(cctx, stakingtypes.NewMsgBeginRedelegate(user.String(), val.String(), val2.String(), sdk.NewCoin(e.bond, amt)))
			case 8:
				w := math.LegacyNewDecWithPrec(int64(r.Intn(300)), 2)
				_, err = e.allMsg.UpdateAlliance(cctx, &types.MsgUpdateAlliance{Authority: e.gov, Denom: denom, RewardWeight: w,
					RewardWeightRange: types.RewardWeightRange{Min: math.LegacyZeroDec(), Max: math.LegacyNewDec(5)},
					TakeRate:          math.LegacyMustNewDecFromStr("0.0001"), RewardChangeRate: math.LegacyOneDec(), RewardChangeInterval: 0})
			}
			e.ctx = saved
			if err == nil {
				write()
				stats[fmt.Sprintf("op%d", op)]++
			}
			require.Truef(t, e.netSupply().Sub(net0).Abs().LTE(math.NewInt(3)), "block %d op: net supply %s -> %s", block, net0, e.netSupply())
			for _, u := range users {
				_ = u
			}
		}
		e.endBlock()

		bal := app.BankKeeper.GetBalance(e.ctx, e.modAddr, e.bond)
		require.Truef(t, bal.IsZero(), "block %d: module account holds %s at block end", block, bal)
		net1 := e.netSupply()
		require.Truef(t, net1.Sub(net0).Abs().LTE(math.NewInt(5)), "block %d: net supply changed %s -> %s", block, net0, net1)
		bonded, all := e.moduleStake()
		if !bonded.Equal(all) {
			stats["stranded"]++
		}
		if all.IsPositive() {
			stats["staked"]++
		}
		// TotalSupply, paged one denom at a time, agrees with SupplyOf
		var key []byte
		for {
			res, err := app.BankKeeper.TotalSupply(e.ctx, &banktypes.QueryTotalSupplyRequest{Pagination: &query.PageRequest{Key: key, Limit: 1}})
			require.NoError(t, err)
			if res.Supply.AmountOf(e.bond).IsPositive() {
				require.Equal(t, e.supplyOf(), res.Supply.AmountOf(e.bond))
				stats["pagedok"]++
			}
			key = res.Pagination.NextKey
			if len(key) == 0 {
				break
			}
		}
		if bonded.Equal(all) {
			require.Truef(t, e.supplyOf().Sub(net1).Abs().LTE(math.NewInt(5)), "block %d: SupplyOf %s, net %s", block, e.supplyOf(), net1)
		}
	}
}

// TestHuntRealCoinsInModuleAccountAreBurned: the alliance module account is taken off the bank's blocked list (app.go
// BlockedModuleAccountAddrs), so it can receive staking-denom coins that are not virtual: a plain MsgSend, or staking
// rewards of a delegator whose withdraw address points at it. The end blocker (CompleteUnbondings) burns the whole
// staking-denom balance of the account as "virtual" tokens: the supply net of the module's stake falls.
func TestHuntRealCoinsInModuleAccountAreBurned(t *testing.T) {
	e := newHuntEnv(t)
	app := e.app
	addrs := test_helpers.AddTestAddrsIncremental(app, e.ctx, 3, sdk.NewCoins(
		sdk.NewCoin(e.bond, math.NewInt(1_000_000_000)),
		sdk.NewCoin(AllianceDenom, math.NewInt(1_000_000_000)),
	))
	valAddr := e.createValidator(addrs[0], 0, 5_000_000)
	user, alice := addrs[1], addrs[2]

	_, err := e.allMsg.UpdateParams(e.ctx, &types.MsgUpdateParams{Authority: e.gov, Params: types.Params{
		RewardDelayTime: time.Minute, TakeRateClaimInterval: 5 * time.Minute, LastTakeRateClaimTime: e.ctx.BlockTime()}})
	require.NoError(t, err)
	_, err = e.allMsg.CreateAlliance(e.ctx, &types.MsgCreateAlliance{Authority: e.gov, Denom: AllianceDenom,
		RewardWeight: math.LegacyMustNewDecFromStr("0.5"), RewardWeightRange: types.RewardWeightRange{Min: math.LegacyZeroDec(), Max: math.LegacyNewDec(5)},
		TakeRate: math.LegacyZeroDec(), RewardChangeRate: math.LegacyOneDec(), RewardChangeInterval: 0})
	require.NoError(t, err)
	e.endBlock()
	e.beginBlock(2 * time.Minute)
	_, err = e.allMsg.Delegate(e.ctx, types.NewMsgDelegate(user.String(), valAddr.String(), sdk.NewCoin(AllianceDenom, math.NewInt(10_000_000))))
	require.NoError(t, err)
	e.endBlock()
	_, staked := e.moduleStake()
	require.True(t, staked.IsPositive(), "the module holds virtual stake")

	// 1. a transfer to the module account through the bank msg server of the app
	e.beginBlock(time.Minute)
	net0 := e.netSupply()
	bankMsg := custombankkeeper.NewMsgServerImpl(app.BankKeeper, app.AccountKeeper.AddressCodec())
	_, err = bankMsg.Send(e.ctx, banktypes.NewMsgSend(alice, e.modAddr, sdk.NewCoins(sdk.NewCoin(e.bond, math.NewInt(7_000_000)))))
	require.NoError(t, err, "the module account is not a blocked address")
	require.Equal(t, net0, e.netSupply())
	e.endBlock()
	require.True(t, app.BankKeeper.GetBalance(e.ctx, e.modAddr, e.bond).IsZero())
	net1 := e.netSupply()
	t.Logf("net staking-denom supply before the end blocker %s, after %s (diff %s)", net0, net1, net1.Sub(net0))
	require.Truef(t, net1.Sub(net0).Abs().LTE(math.NewInt(2)),
		"C11: the alliance end blocker changed the staking-denom supply net of the module's stake: %s -> %s", net0, net1)
}
