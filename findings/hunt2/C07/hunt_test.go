package tests_test

import (
	"fmt"
	"math/rand"
	"strings"
	"testing"
	"time"

	"cosmossdk.io/math"
	storetypes "cosmossdk.io/store/types"
	abcitypes "github.com/cometbft/cometbft/abci/types"
	authtypes "github.com/cosmos/cosmos-sdk/x/auth/types"
	minttypes "github.com/cosmos/cosmos-sdk/x/mint/types"
	stakingkeeper "github.com/cosmos/cosmos-sdk/x/staking/keeper"
	"github.com/stretchr/testify/require"

	sdk "github.com/cosmos/cosmos-sdk/types"
	stakingtypes "github.com/cosmos/cosmos-sdk/x/staking/types"

	test_helpers "github.com/terra-money/alliance/app"
	"github.com/terra-money/alliance/x/alliance"
	"github.com/terra-money/alliance/x/alliance/keeper"
	"github.com/terra-money/alliance/x/alliance/types"
)

type huntEnv struct {
	t      *testing.T
	app    *test_helpers.App
	ctx    sdk.Context
	vals   []sdk.ValAddress
	users  []sdk.AccAddress
	denoms []string
	ms     types.MsgServer
	rng    *rand.Rand
	log    []string

	knownAborts int
}

func (e *huntEnv) logf(f string, a ...interface{}) {
	e.log = append(e.log, fmt.Sprintf("[h=%d] ", e.ctx.BlockHeight())+fmt.Sprintf(f, a...))
}

func newHuntEnv(t *testing.T, seed int64, nVals int, denoms []string) *huntEnv {
	app, ctx := createTestContext(t)
	start := time.Date(2024, 1, 1, 0, 0, 0, 0, time.UTC)
	ctx = ctx.WithBlockTime(start).WithBlockHeight(1)
	e := &huntEnv{t: t, app: app, ctx: ctx, denoms: denoms, rng: rand.New(rand.NewSource(seed))}
	e.ms = keeper.NewMsgServerImpl(app.AllianceKeeper)

	bondDenom, err := app.StakingKeeper.BondDenom(ctx)
	require.NoError(t, err)
	coins := sdk.NewCoins(sdk.NewCoin(bondDenom, math.NewInt(1_000_000_000)))
	for _, d := range denoms {
		coins = coins.Add(sdk.NewCoin(d, math.NewInt(1_000_000_000)))
	}
	addrs := test_helpers.AddTestAddrsIncremental(app, ctx, nVals+4, coins)
	pks := test_helpers.CreateTestPubKeys(nVals)
	sms := stakingkeeper.NewMsgServerImpl(app.StakingKeeper)
	for i := 0; i < nVals; i++ {
		valAddr := sdk.ValAddress(addrs[i])
		msg, err := stakingtypes.NewMsgCreateValidator(valAddr.String(), pks[i], sdk.NewCoin(bondDenom, math.NewInt(int64(1_000_000*(i+1)))),
			stakingtypes.Description{Moniker: fmt.Sprintf("v%d", i)},
			stakingtypes.NewCommissionRates(math.LegacyNewDecWithPrec(int64(i), 1), math.LegacyOneDec(), math.LegacyOneDec()), math.OneInt())
		require.NoError(t, err)
		_, err = sms.CreateValidator(ctx, msg)
		require.NoError(t, err)
		e.vals = append(e.vals, valAddr)
	}
	_, err = app.StakingKeeper.EndBlocker(ctx)
	require.NoError(t, err)
	e.users = addrs[nVals:]

	// short delay time so that the warm-up is crossed
	_, err = e.ms.UpdateParams(ctx, &types.MsgUpdateParams{
		Authority: app.AllianceKeeper.GetAuthority(),
		Params: types.Params{
			RewardDelayTime:       time.Hour * 24,
			TakeRateClaimInterval: time.Hour,
			LastTakeRateClaimTime: ctx.BlockTime(),
		},
	})
	require.NoError(t, err)
	for i, d := range denoms {
		take := math.LegacyZeroDec()
		if i%2 == 1 {
			take = math.LegacyNewDecWithPrec(1, 4)
		}
		rate := math.LegacyOneDec()
		interval := time.Duration(0)
		if i == 0 {
			rate = math.LegacyNewDecWithPrec(99, 2)
			interval = time.Hour * 24
		}
		_, err = e.ms.CreateAlliance(ctx, &types.MsgCreateAlliance{
			Authority:            app.AllianceKeeper.GetAuthority(),
			Denom:                d,
			RewardWeight:         math.LegacyNewDecWithPrec(int64(5*(i+1)), 2),
			TakeRate:             take,
			RewardChangeRate:     rate,
			RewardChangeInterval: interval,
			RewardWeightRange:    types.RewardWeightRange{Min: math.LegacyZeroDec(), Max: math.LegacyNewDec(5)},
		})
		require.NoError(t, err)
	}
	return e
}

var huntCheckPool bool

// sum of everything that is claimable must be covered by the rewards pool
func (e *huntEnv) checkPool(where string) {
	if !huntCheckPool {
		return
	}
	k := e.app.AllianceKeeper
	cctx, _ := e.ctx.CacheContext()
	total := sdk.NewCoins()
	var dels []types.Delegation
	_ = k.IterateDelegations(cctx, func(d types.Delegation) bool { dels = append(dels, d); return false })
	for _, d := range dels {
		del, _ := sdk.AccAddressFromBech32(d.DelegatorAddress)
		va, _ := sdk.ValAddressFromBech32(d.ValidatorAddress)
		val, err := k.GetAllianceValidator(cctx, va)
		if err != nil {
			continue
		}
		before := e.app.BankKeeper.GetAllBalances(cctx, del)
		_, err = k.ClaimDelegationRewards(cctx, del, val, d.Denom)
		if err != nil {
			e.t.Fatalf("pool check (%s): claim %s %s %s fails: %v\n%s", where, d.DelegatorAddress, d.ValidatorAddress, d.Denom, err, e.tail())
		}
		total = total.Add(e.app.BankKeeper.GetAllBalances(cctx, del).Sub(before...)...)
	}
}

func (e *huntEnv) endBlock() {
	_, err := e.app.StakingKeeper.EndBlocker(e.ctx)
	require.NoError(e.t, err)
	err = alliance.EndBlocker(e.ctx, e.app.AllianceKeeper)
	require.NoError(e.t, err, "alliance end blocker\n%s", e.tail())
	e.checkPool("endblock")
}

func (e *huntEnv) tail() string {
	s := ""
	from := len(e.log) - 60
	if from < 0 {
		from = 0
	}
	for _, l := range e.log[from:] {
		s += l + "\n"
	}
	return s
}

func (e *huntEnv) beginBlock(dt time.Duration) {
	e.ctx = e.ctx.WithBlockHeight(e.ctx.BlockHeight() + 1).WithBlockTime(e.ctx.BlockTime().Add(dt))
	// rewards
	bondDenom, _ := e.app.StakingKeeper.BondDenom(e.ctx)
	rew := sdk.NewCoins(sdk.NewCoin(bondDenom, math.NewInt(1_000_003)), sdk.NewCoin("reward", math.NewInt(777_777)))
	require.NoError(e.t, e.app.BankKeeper.MintCoins(e.ctx, minttypes.ModuleName, rew))
	require.NoError(e.t, e.app.BankKeeper.SendCoinsFromModuleToModule(e.ctx, minttypes.ModuleName, authtypes.FeeCollectorName, rew))
	var votes []abcitypes.VoteInfo
	total := int64(0)
	err := e.app.StakingKeeper.IterateBondedValidatorsByPower(e.ctx, func(_ int64, v stakingtypes.ValidatorI) bool {
		cons, _ := v.GetConsAddr()
		p := v.GetConsensusPower(e.app.StakingKeeper.PowerReduction(e.ctx))
		votes = append(votes, abcitypes.VoteInfo{Validator: abcitypes.Validator{Address: cons, Power: p}})
		total += p
		return false
	})
	require.NoError(e.t, err)
	if total > 0 {
		require.NoError(e.t, e.app.DistrKeeper.AllocateTokens(e.ctx, total, votes))
	}
}

type undelSnap struct {
	completion time.Time
	entries    []types.Undelegation
}

func (e *huntEnv) snapshotUndelegations() map[string]undelSnap {
	res := map[string]undelSnap{}
	e.app.AllianceKeeper.IterateUndelegations(e.ctx, func(u types.QueuedUndelegation, completion time.Time) bool {
		s := undelSnap{completion: completion}
		for _, en := range u.Entries {
			s.entries = append(s.entries, *en)
		}
		key := completion.String() + "/" + u.Entries[0].DelegatorAddress
		res[key] = s
		return false
	})
	return res
}

// slash through x/staking and check the unbonding clause of the property
func (e *huntEnv) slashAndCheck(valAddr sdk.ValAddress, f math.LegacyDec, jail bool) {
	k := e.app.AllianceKeeper
	val, err := e.app.StakingKeeper.GetValidator(e.ctx, valAddr)
	require.NoError(e.t, err)
	if val.IsUnbonded() {
		return
	}
	cons, _ := val.GetConsAddr()
	power := val.ConsensusPower(e.app.StakingKeeper.PowerReduction(e.ctx))
	slashAmount := math.LegacyNewDecFromInt(e.app.StakingKeeper.TokensFromConsensusPower(e.ctx, power)).Mul(f).TruncateInt()
	burn := math.MinInt(slashAmount, val.Tokens)
	if burn.IsZero() {
		return
	}
	eff := math.LegacyNewDecFromInt(burn).QuoRoundUp(math.LegacyNewDecFromInt(val.Tokens))
	if eff.GT(math.LegacyOneDec()) {
		eff = math.LegacyOneDec()
	}

	// dry run of the callback to see if it reports an error (staking only logs it)
	cctx, _ := e.ctx.CacheContext()
	var hookErr error
	func() {
		defer func() {
			if r := recover(); r != nil {
				hookErr = fmt.Errorf("panic: %v", r)
			}
		}()
		hookErr = k.SlashValidator(cctx, valAddr, eff)
	}()

	if hookErr != nil && strings.Contains(hookErr.Error(), "insufficient funds") && strings.Contains(hookErr.Error(), "spendable balance") {
		// rewards pool short after earlier slashes re-priced positions without settling (known K7): the claim inside
		// the redelegation slash fails, x/staking only logs the callback's error. Not followed further here
		e.logf("SLASH %s skipped: callback would fail with %v", valAddr, hookErr)
		e.knownAborts++
		return
	}
	before := e.snapshotUndelegations()
	feeAddr := e.app.AccountKeeper.GetModuleAddress(authtypes.FeeCollectorName)
	feeBefore := e.app.BankKeeper.GetAllBalances(e.ctx, feeAddr)
	type redelSnap struct {
		r          types.Redelegation
		completion time.Time
		shares     math.LegacyDec
		found      bool
	}
	var redels []redelSnap
	k.IterateRedelegations(e.ctx, func(r types.Redelegation, completion time.Time) bool {
		del, _ := sdk.AccAddressFromBech32(r.DelegatorAddress)
		dst, _ := sdk.ValAddressFromBech32(r.DstValidatorAddress)
		d, found := k.GetDelegation(e.ctx, del, dst, r.Balance.Denom)
		redels = append(redels, redelSnap{r: r, completion: completion, shares: d.Shares, found: found})
		return false
	})

	e.logf("SLASH %s f=%s eff=%s hookErr=%v", valAddr, f, eff, hookErr)
	_, err = e.app.StakingKeeper.Slash(e.ctx, cons, e.ctx.BlockHeight(), power, f)
	require.NoError(e.t, err)
	if jail && !val.IsJailed() {
		require.NoError(e.t, e.app.StakingKeeper.Jail(e.ctx, cons))
	}

	e.checkPool("slash")
	after := e.snapshotUndelegations()
	require.Equal(e.t, len(before), len(after))
	expectedFee := sdk.NewCoins()
	for key, b := range before {
		a, ok := after[key]
		require.True(e.t, ok)
		require.Equal(e.t, len(b.entries), len(a.entries))
		for i, be := range b.entries {
			ae := a.entries[i]
			exp := be.Balance.Amount
			if be.ValidatorAddress == valAddr.String() && !b.completion.Before(e.ctx.BlockTime()) {
				cut := eff.MulInt(be.Balance.Amount).TruncateInt()
				exp = exp.Sub(cut)
				expectedFee = expectedFee.Add(sdk.NewCoin(be.Balance.Denom, cut))
			}
			require.Equal(e.t, exp.String(), ae.Balance.Amount.String(),
				"unbonding entry %s val=%s (slashed %s) completion=%s now=%s before=%s hookErr=%v\n%s", key, be.ValidatorAddress, valAddr, b.completion, e.ctx.BlockTime(), be.Balance, hookErr, e.tail())
		}
	}
	feeAfter := e.app.BankKeeper.GetAllBalances(e.ctx, feeAddr)
	for _, d := range e.denoms {
		require.Equal(e.t, expectedFee.AmountOf(d).String(), feeAfter.AmountOf(d).Sub(feeBefore.AmountOf(d)).String(), "fee collector delta %s hookErr=%v\n%s", d, hookErr, e.tail())
	}
	// redelegations out of other validators: destination untouched unless it is also the destination of a redelegation out of V
	touched := map[string]bool{}
	pendingFromV := map[string]bool{}
	for _, r := range redels {
		if r.r.SrcValidatorAddress == valAddr.String() && !r.completion.Before(e.ctx.BlockTime()) {
			pendingFromV[r.r.DelegatorAddress+r.r.DstValidatorAddress+r.r.Balance.Denom] = true
		}
		if r.r.SrcValidatorAddress == valAddr.String() {
			touched[r.r.DelegatorAddress+r.r.DstValidatorAddress+r.r.Balance.Denom] = true
		}
	}
	for _, r := range redels {
		del, _ := sdk.AccAddressFromBech32(r.r.DelegatorAddress)
		dst, _ := sdk.ValAddressFromBech32(r.r.DstValidatorAddress)
		d, found := k.GetDelegation(e.ctx, del, dst, r.r.Balance.Denom)
		if !touched[r.r.DelegatorAddress+r.r.DstValidatorAddress+r.r.Balance.Denom] {
			require.Equal(e.t, r.found, found)
			if found {
				require.Equal(e.t, r.shares.String(), d.Shares.String(), "foreign redelegation destination touched %v completion %s hookErr=%v\n%s", r.r, r.completion, hookErr, e.tail())
			}
			continue
		}
		if r.r.SrcValidatorAddress != valAddr.String() {
			continue
		}
		pending := !r.completion.Before(e.ctx.BlockTime())
		cut := eff.MulInt(r.r.Balance.Amount).TruncateInt()
		if pending && r.found && cut.IsPositive() {
			if found {
				require.True(e.t, d.Shares.LT(r.shares), "pending redelegation out of the slashed validator: destination shares not reduced (%s -> %s) redel=%v hookErr=%v\n%s", r.shares, d.Shares, r.r, hookErr, e.tail())
			}
		}
		if !pending && r.found && !pendingFromV[r.r.DelegatorAddress+r.r.DstValidatorAddress+r.r.Balance.Denom] {
			require.True(e.t, found)
			require.Equal(e.t, r.shares.String(), d.Shares.String(), "matured redelegation destination touched %v completion=%s now=%s all=%v", r.r, r.completion, e.ctx.BlockTime(), redels)
		}
	}
	require.NoError(e.t, hookErr, "the slash callback fails\n%s", e.tail())
}

func (e *huntEnv) randomTx() {
	k := e.app.AllianceKeeper
	user := e.users[e.rng.Intn(len(e.users))]
	denom := e.denoms[e.rng.Intn(len(e.denoms))]
	v1 := e.vals[e.rng.Intn(len(e.vals))]
	v2 := e.vals[e.rng.Intn(len(e.vals))]
	cctx, write := e.ctx.CacheContext()
	var err error
	desc := ""
	func() {
		defer func() {
			if r := recover(); r != nil {
				err = fmt.Errorf("panic: %v", r)
			}
		}()
		switch op := e.rng.Intn(10); {
		case op < 4:
			amt := math.NewInt(int64(1 + e.rng.Intn(5_000_000)))
			desc = fmt.Sprintf("delegate %s %s%s -> %s", user, amt, denom, v1)
			_, err = e.ms.Delegate(cctx, &types.MsgDelegate{DelegatorAddress: user.String(), ValidatorAddress: v1.String(), Amount: sdk.NewCoin(denom, amt)})
		case op < 7:
			d, found := k.GetDelegation(cctx, user, v1, denom)
			if !found {
				return
			}
			val, verr := k.GetAllianceValidator(cctx, v1)
			if verr != nil {
				return
			}
			asset, _ := k.GetAssetByDenom(cctx, denom)
			bal := types.GetDelegationTokens(d, val, asset).Amount
			if !bal.IsPositive() {
				return
			}
			amt := bal
			if e.rng.Intn(3) > 0 {
				amt = math.NewInt(1 + e.rng.Int63n(bal.Int64()))
			}
			desc = fmt.Sprintf("undelegate %s %s%s from %s (bal %s)", user, amt, denom, v1, bal)
			_, err = e.ms.Undelegate(cctx, &types.MsgUndelegate{DelegatorAddress: user.String(), ValidatorAddress: v1.String(), Amount: sdk.NewCoin(denom, amt)})
		case op < 9:
			d, found := k.GetDelegation(cctx, user, v1, denom)
			if !found || v1.Equals(v2) {
				return
			}
			val, verr := k.GetAllianceValidator(cctx, v1)
			if verr != nil {
				return
			}
			asset, _ := k.GetAssetByDenom(cctx, denom)
			bal := types.GetDelegationTokens(d, val, asset).Amount
			if !bal.IsPositive() {
				return
			}
			amt := bal
			if e.rng.Intn(3) > 0 {
				amt = math.NewInt(1 + e.rng.Int63n(bal.Int64()))
			}
			// stay clear of the known merge of redelegation records (same delegator, denom, destination, other source)
			skip := false
			k.IterateRedelegations(cctx, func(r types.Redelegation, _ time.Time) bool {
				if r.DelegatorAddress == user.String() && r.Balance.Denom == denom && r.DstValidatorAddress == v2.String() && r.SrcValidatorAddress != v1.String() {
					skip = true
				}
				return skip
			})
			if skip {
				return
			}
			desc = fmt.Sprintf("redelegate %s %s%s %s -> %s (bal %s)", user, amt, denom, v1, v2, bal)
			_, err = e.ms.Redelegate(cctx, &types.MsgRedelegate{DelegatorAddress: user.String(), ValidatorSrcAddress: v1.String(), ValidatorDstAddress: v2.String(), Amount: sdk.NewCoin(denom, amt)})
		default:
			desc = fmt.Sprintf("claim %s %s %s", user, v1, denom)
			_, err = e.ms.ClaimDelegationRewards(cctx, &types.MsgClaimDelegationRewards{DelegatorAddress: user.String(), ValidatorAddress: v1.String(), Denom: denom})
		}
	}()
	if desc == "" {
		return
	}
	if err == nil {
		write()
		e.logf("%s ok", desc)
		e.checkPool(desc)
	} else {
		e.logf("%s ERR %v", desc, err)
	}
}

var huntMaxVals uint32
var huntLongAddr bool

func huntRun(t *testing.T, seed int64, steps int) *huntEnv {
	e := newHuntEnv(t, seed, 4, []string{"alpha", "beta", "ibc/27394FB092D2ECCD56123C74F36E4C1F926001CEADA9CA97EA622B25F41E5EB2"})
	if huntMaxVals > 0 {
		p, _ := e.app.StakingKeeper.GetParams(e.ctx)
		p.MaxValidators = huntMaxVals
		require.NoError(t, e.app.StakingKeeper.SetParams(e.ctx, p))
	}
	if huntLongAddr {
		long := sdk.AccAddress(append([]byte("0123456789abcdef0123456789abcde"), byte(seed)))
		coins := e.app.BankKeeper.GetAllBalances(e.ctx, e.users[0])
		require.NoError(t, e.app.BankKeeper.MintCoins(e.ctx, minttypes.ModuleName, coins))
		require.NoError(t, e.app.BankKeeper.SendCoinsFromModuleToAccount(e.ctx, minttypes.ModuleName, long, coins))
		e.users = append(e.users[:2], long, long)
	}
	for i := 0; i < steps; i++ {
		var dt time.Duration
		switch e.rng.Intn(6) {
		case 0:
			dt = time.Second * 6
		case 1:
			dt = time.Hour * time.Duration(1+e.rng.Intn(30))
		case 2:
			dt = time.Hour * 24 * time.Duration(1+e.rng.Intn(8))
		default:
			dt = time.Minute * time.Duration(1+e.rng.Intn(600))
		}
		e.beginBlock(dt)
		if e.rng.Intn(5) == 0 {
			v := e.vals[e.rng.Intn(len(e.vals))]
			fr := []math.LegacyDec{math.LegacyNewDecWithPrec(1, 2), math.LegacyNewDecWithPrec(5, 2), math.LegacyNewDecWithPrec(333333, 6), math.LegacyNewDecWithPrec(5, 1)}[e.rng.Intn(4)]
			e.slashAndCheck(v, fr, e.rng.Intn(3) == 0)
		}
		// unjail jailed validators sometimes
		for _, v := range e.vals {
			val, err := e.app.StakingKeeper.GetValidator(e.ctx, v)
			if err == nil && val.IsJailed() && e.rng.Intn(4) == 0 {
				cons, _ := val.GetConsAddr()
				if err := e.app.StakingKeeper.Unjail(e.ctx, cons); err == nil {
					e.logf("unjail %s", v)
				}
			}
		}
		if e.rng.Intn(25) == 0 {
			p, _ := e.app.StakingKeeper.GetParams(e.ctx)
			p.UnbondingTime = time.Hour * 24 * time.Duration(1+e.rng.Intn(21))
			require.NoError(t, e.app.StakingKeeper.SetParams(e.ctx, p))
			e.logf("unbonding time %s", p.UnbondingTime)
		}
		if e.rng.Intn(20) == 0 {
			d := e.denoms[e.rng.Intn(len(e.denoms))]
			a, _ := e.app.AllianceKeeper.GetAssetByDenom(e.ctx, d)
			_, err := e.ms.UpdateAlliance(e.ctx, &types.MsgUpdateAlliance{
				Authority: e.app.AllianceKeeper.GetAuthority(), Denom: d,
				RewardWeight: math.LegacyNewDecWithPrec(int64(e.rng.Intn(40)), 2), TakeRate: a.TakeRate,
				RewardChangeRate: a.RewardChangeRate, RewardChangeInterval: a.RewardChangeInterval,
				RewardWeightRange: types.RewardWeightRange{Min: math.LegacyZeroDec(), Max: math.LegacyNewDec(5)},
			})
			e.logf("update alliance %s err=%v", d, err)
		}
		n := e.rng.Intn(5)
		for j := 0; j < n; j++ {
			e.randomTx()
		}
		e.endBlock()
	}
	return e
}

func dumpStore(ctx sdk.Context, a *test_helpers.App, prefixes ...byte) map[string]string {
	res := map[string]string{}
	st := ctx.KVStore(a.GetKey(types.StoreKey))
	for _, p := range prefixes {
		it := storetypes.KVStorePrefixIterator(st, []byte{p})
		for ; it.Valid(); it.Next() {
			res[fmt.Sprintf("%x", it.Key())] = fmt.Sprintf("%x", it.Value())
		}
		it.Close()
	}
	return res
}

func TestHuntGenesisRoundTrip(t *testing.T) {
	for seed := int64(1); seed <= 40; seed++ {
		seed := seed
		t.Run(fmt.Sprintf("seed%d", seed), func(t *testing.T) {
			e := huntRun(t, seed, 120)
			gs := e.app.AllianceKeeper.ExportGenesis(e.ctx)
			bz, err := e.app.AppCodec().MarshalJSON(gs)
			require.NoError(t, err)
			var gs2 types.GenesisState
			require.NoError(t, e.app.AppCodec().UnmarshalJSON(bz, &gs2))
			app2, ctx2 := createTestContext(t)
			ctx2 = ctx2.WithBlockTime(e.ctx.BlockTime()).WithBlockHeight(e.ctx.BlockHeight())
			app2.AllianceKeeper.InitGenesis(ctx2, &gs2)
			a := dumpStore(e.ctx, e.app, 0x22, 0x24, 0x31, 0x32)
			b := dumpStore(ctx2, app2, 0x22, 0x24, 0x31, 0x32)
			require.Equal(t, a, b)
		})
	}
}

func TestHuntPool(t *testing.T) {
	huntMaxVals = 3
	huntLongAddr = true
	huntCheckPool = true
	defer func() { huntMaxVals = 0; huntLongAddr = false; huntCheckPool = false }()
	huntRun(t, 1118, 250)
}

func TestHuntFuzzVariants(t *testing.T) {
	huntMaxVals = 3
	huntLongAddr = true
	defer func() { huntMaxVals = 0; huntLongAddr = false }()
	for seed := int64(1000); seed <= 1100; seed++ {
		seed := seed
		t.Run(fmt.Sprintf("seed%d", seed), func(t *testing.T) {
			huntRun(t, seed, 250)
		})
	}
}

func TestHuntFuzz(t *testing.T) {
	for seed := int64(1); seed <= 60; seed++ {
		seed := seed
		t.Run(fmt.Sprintf("seed%d", seed), func(t *testing.T) {
			huntRun(t, seed, 250)
		})
	}
}
