package tests_test

import (
	"fmt"
	"math/rand"
	"testing"
	"time"

	"cosmossdk.io/math"

	test_helpers "github.com/terra-money/alliance/app"
	"github.com/terra-money/alliance/x/alliance"
	"github.com/terra-money/alliance/x/alliance/keeper"
	"github.com/terra-money/alliance/x/alliance/types"

	abcitypes "github.com/cometbft/cometbft/abci/types"
	sdk "github.com/cosmos/cosmos-sdk/types"
	authtypes "github.com/cosmos/cosmos-sdk/x/auth/types"
	minttypes "github.com/cosmos/cosmos-sdk/x/mint/types"
	teststaking "github.com/cosmos/cosmos-sdk/x/staking/testutil"
	stakingtypes "github.com/cosmos/cosmos-sdk/x/staking/types"
	"github.com/stretchr/testify/require"
)

type huntEnv struct {
	t        *testing.T
	app      *test_helpers.App
	ctx      sdk.Context
	ms       types.MsgServer
	vals     []sdk.ValAddress
	users    []sdk.AccAddress
	bond     string
	received math.Int // total sent into the rewards pool (tracked from balances)
}

func huntSetup(t *testing.T, nVals int, nUsers int, userCoins sdk.Coins, commissions ...math.LegacyDec) *huntEnv {
	app, ctx := createTestContext(t)
	ctx = ctx.WithBlockHeight(1).WithBlockTime(time.Unix(1_700_000_000, 0).UTC())
	params := types.DefaultParams()
	params.RewardDelayTime = 0
	params.LastTakeRateClaimTime = ctx.BlockTime()
	params.TakeRateClaimInterval = time.Minute * 5
	app.AllianceKeeper.InitGenesis(ctx, &types.GenesisState{Params: params})

	distParams, err := app.DistrKeeper.Params.Get(ctx)
	require.NoError(t, err)
	distParams.CommunityTax = math.LegacyZeroDec()
	require.NoError(t, app.DistrKeeper.Params.Set(ctx, distParams))

	bondDenom, err := app.StakingKeeper.BondDenom(ctx)
	require.NoError(t, err)

	valAccs := test_helpers.AddTestAddrsIncremental(app, ctx, nVals, sdk.NewCoins(sdk.NewCoin(bondDenom, math.NewInt(1_000_000_000))))
	pks := test_helpers.CreateTestPubKeys(nVals)
	env := &huntEnv{t: t, app: app, bond: bondDenom, ms: keeper.NewMsgServerImpl(app.AllianceKeeper)}
	for i := 0; i < nVals; i++ {
		valAddr := sdk.ValAddress(valAccs[i])
		v := teststaking.NewValidator(t, valAddr, pks[i])
		rate := math.LegacyZeroDec()
		if i < len(commissions) {
			rate = commissions[i]
		}
		v.Commission = stakingtypes.Commission{
			CommissionRates: stakingtypes.CommissionRates{Rate: rate, MaxRate: math.LegacyOneDec(), MaxChangeRate: math.LegacyNewDec(0)},
			UpdateTime:      ctx.BlockTime(),
		}
		test_helpers.RegisterNewValidator(t, app, ctx, v)
		sv, err := app.StakingKeeper.GetValidator(ctx, valAddr)
		require.NoError(t, err)
		_, err = app.StakingKeeper.Delegate(ctx, valAccs[i], math.NewInt(100_000_000+int64(i)*13_000_000), stakingtypes.Unbonded, sv, true)
		require.NoError(t, err)
		env.vals = append(env.vals, valAddr)
	}
	env.users = test_helpers.AddTestAddrsIncremental(app, ctx, nUsers, userCoins)
	_, err = app.StakingKeeper.EndBlocker(ctx)
	require.NoError(t, err)
	env.ctx = ctx
	return env
}

func (e *huntEnv) createAlliance(denom string, weight math.LegacyDec, takeRate math.LegacyDec) {
	_, err := e.ms.CreateAlliance(e.ctx, &types.MsgCreateAlliance{
		Authority:            e.app.AllianceKeeper.GetAuthority(),
		Denom:                denom,
		RewardWeight:         weight,
		TakeRate:             takeRate,
		RewardChangeRate:     math.LegacyOneDec(),
		RewardChangeInterval: 0,
		RewardWeightRange:    types.RewardWeightRange{Min: math.LegacyZeroDec(), Max: math.LegacyNewDec(1000)},
	})
	require.NoError(e.t, err)
}

// nextBlock runs the alliance (and staking) end blocker of the current block, then starts the next block and
// allocates `reward` of the bond denom through x/distribution like its begin blocker does
func (e *huntEnv) nextBlock(reward int64) { e.nextBlockAfter(reward, time.Minute) }

func (e *huntEnv) nextBlockAfter(reward int64, dt time.Duration) {
	_, err := e.app.StakingKeeper.EndBlocker(e.ctx)
	require.NoError(e.t, err)
	require.NoError(e.t, alliance.EndBlocker(e.ctx, e.app.AllianceKeeper))

	e.ctx = e.ctx.WithBlockHeight(e.ctx.BlockHeight() + 1).WithBlockTime(e.ctx.BlockTime().Add(dt))
	if reward > 0 {
		coins := sdk.NewCoins(sdk.NewCoin(e.bond, math.NewInt(reward)))
		require.NoError(e.t, e.app.BankKeeper.MintCoins(e.ctx, minttypes.ModuleName, coins))
		require.NoError(e.t, e.app.BankKeeper.SendCoinsFromModuleToModule(e.ctx, minttypes.ModuleName, authtypes.FeeCollectorName, coins))
	}
	var votes []abcitypes.VoteInfo
	total := int64(0)
	vals, err := e.app.StakingKeeper.GetBondedValidatorsByPower(e.ctx)
	require.NoError(e.t, err)
	for _, v := range vals {
		cons, _ := v.GetConsAddr()
		p := v.ConsensusPower(e.app.StakingKeeper.PowerReduction(e.ctx))
		if p == 0 {
			continue
		}
		total += p
		votes = append(votes, abcitypes.VoteInfo{Validator: abcitypes.Validator{Address: cons, Power: p}})
	}
	require.NoError(e.t, e.app.DistrKeeper.AllocateTokens(e.ctx, total, votes))
}

func (e *huntEnv) pool() sdk.Coins {
	return e.app.BankKeeper.GetAllBalances(e.ctx, e.app.AccountKeeper.GetModuleAddress(types.RewardsPoolName))
}

// checkSolvent claims every delegation (on a branch of the state) through the msg server: C12 says this always succeeds
func (e *huntEnv) checkSolvent(tag string) error {
	_, err := e.slack(tag)
	return err
}

// slack = what is left in the pool after everybody claimed (on a branch of the state)
func (e *huntEnv) slack(tag string) (math.Int, error) {
	cctx, _ := e.ctx.CacheContext()
	var dels []types.Delegation
	_ = e.app.AllianceKeeper.IterateDelegations(cctx, func(d types.Delegation) bool {
		dels = append(dels, d)
		return false
	})
	for _, d := range dels {
		_, err := e.ms.ClaimDelegationRewards(cctx, &types.MsgClaimDelegationRewards{DelegatorAddress: d.DelegatorAddress, ValidatorAddress: d.ValidatorAddress, Denom: d.Denom})
		if err != nil {
			return math.ZeroInt(), fmt.Errorf("%s: claim of %s/%s/%s failed: %w", tag, d.DelegatorAddress, d.ValidatorAddress, d.Denom, err)
		}
	}
	return e.app.BankKeeper.GetBalance(cctx, e.app.AccountKeeper.GetModuleAddress(types.RewardsPoolName), e.bond).Amount, nil
}

func (e *huntEnv) claimAllReal() {
	var dels []types.Delegation
	_ = e.app.AllianceKeeper.IterateDelegations(e.ctx, func(d types.Delegation) bool {
		dels = append(dels, d)
		return false
	})
	for _, d := range dels {
		_, err := e.ms.ClaimDelegationRewards(e.ctx, &types.MsgClaimDelegationRewards{DelegatorAddress: d.DelegatorAddress, ValidatorAddress: d.ValidatorAddress, Denom: d.Denom})
		require.NoError(e.t, err)
	}
}

// diag prints, per validator, what a settlement brings into the pool and what its delegations then take out
func (e *huntEnv) diag() {
	cctx, _ := e.ctx.CacheContext()
	poolAddr := e.app.AccountKeeper.GetModuleAddress(types.RewardsPoolName)
	recv := map[string]math.Int{}
	for _, v := range e.vals {
		av, err := e.app.AllianceKeeper.GetAllianceValidator(cctx, v)
		require.NoError(e.t, err)
		b0 := e.app.BankKeeper.GetBalance(cctx, poolAddr, e.bond).Amount
		_, err = e.app.AllianceKeeper.ClaimValidatorRewards(cctx, av)
		require.NoError(e.t, err)
		recv[v.String()] = e.app.BankKeeper.GetBalance(cctx, poolAddr, e.bond).Amount.Sub(b0)
	}
	paid := map[string]math.Int{}
	var dels []types.Delegation
	_ = e.app.AllianceKeeper.IterateDelegations(cctx, func(d types.Delegation) bool {
		dels = append(dels, d)
		return false
	})
	for _, d := range dels {
		valAddr, _ := sdk.ValAddressFromBech32(d.ValidatorAddress)
		av, _ := e.app.AllianceKeeper.GetAllianceValidator(cctx, valAddr)
		asset, _ := e.app.AllianceKeeper.GetAssetByDenom(cctx, d.Denom)
		b0 := e.app.BankKeeper.GetBalance(cctx, poolAddr, e.bond).Amount
		_, err := e.ms.ClaimDelegationRewards(cctx, &types.MsgClaimDelegationRewards{DelegatorAddress: d.DelegatorAddress, ValidatorAddress: d.ValidatorAddress, Denom: d.Denom})
		require.NoError(e.t, err)
		p := b0.Sub(e.app.BankKeeper.GetBalance(cctx, poolAddr, e.bond).Amount)
		if _, ok := paid[d.ValidatorAddress]; !ok {
			paid[d.ValidatorAddress] = math.ZeroInt()
		}
		paid[d.ValidatorAddress] = paid[d.ValidatorAddress].Add(p)
		valTokens := av.TotalTokensWithAsset(asset)
		exact := types.ConvertNewShareToDecToken(valTokens, av.TotalDelegationSharesWithDenom(asset.Denom), d.Shares)
		e.t.Logf("  del %s val %s %s shares %s exactTokens %s weight %s valTokens %s paid %s", d.DelegatorAddress[len(d.DelegatorAddress)-4:], d.ValidatorAddress[len(d.ValidatorAddress)-4:], d.Denom, d.Shares, exact, types.GetDelegationTokens(d, av, asset).Amount, valTokens, p)
	}
	for _, v := range e.vals {
		e.t.Logf("  val %s received %s paid %s", v.String()[len(v.String())-4:], recv[v.String()], paid[v.String()])
	}
}

func TestHuntFuzz(t *testing.T)      { huntFuzz(t, 0) }
func TestHuntFuzzTake(t *testing.T)  { huntFuzz(t, 1) }
func TestHuntFuzzSlash(t *testing.T) { huntFuzz(t, 2) }

func huntFuzz(t *testing.T, mode int) {
	denoms := []string{"alliance", "alliance2", "alliance3"}
	take := math.LegacyZeroDec()
	if mode == 1 {
		take = math.LegacyNewDecWithPrec(1, 4)
	}
	for seed := int64(1); seed <= 6; seed++ {
		r := rand.New(rand.NewSource(seed))
		coins := sdk.NewCoins()
		for _, d := range denoms {
			coins = coins.Add(sdk.NewCoin(d, math.NewInt(1_000_000_000_000)))
		}
		e := huntSetup(t, 4, 6, coins)
		e.createAlliance(denoms[0], math.LegacyNewDecWithPrec(5, 1), take)
		e.createAlliance(denoms[1], math.LegacyNewDecWithPrec(1, 2), take)
		created3 := false
		prevSlack := math.ZeroInt()
		drops := 0
		for blk := 0; blk < 150; blk++ {
			nops := r.Intn(4)
			for i := 0; i < nops; i++ {
				u := e.users[r.Intn(len(e.users))]
				v := e.vals[r.Intn(len(e.vals))]
				d := denoms[r.Intn(len(denoms))]
				amt := math.NewInt(1 + r.Int63n(int64(1)<<uint(r.Intn(30))))
				opk := r.Intn(10)
				slBefore, _ := e.slack("pre-op")
				opDesc := fmt.Sprintf("op %d user %s val %s denom %s amt %s", opk, u.String()[len(u.String())-4:], v.String()[len(v.String())-4:], d, amt)
				_ = opDesc
				dbg := mode == 1 && seed == 5 && blk == 27 && opk == 2
				if dbg {
					t.Logf("BEFORE %s", opDesc)
					e.diag()
				}
				switch opk {
				case 0, 1, 2, 3:
					_, _ = e.ms.Delegate(e.ctx, &types.MsgDelegate{DelegatorAddress: u.String(), ValidatorAddress: v.String(), Amount: sdk.NewCoin(d, amt)})
				case 4, 5:
					cctx, write := e.ctx.CacheContext()
					if _, err := e.ms.Undelegate(cctx, &types.MsgUndelegate{DelegatorAddress: u.String(), ValidatorAddress: v.String(), Amount: sdk.NewCoin(d, amt)}); err == nil {
						write()
					}
				case 6, 7:
					v2 := e.vals[r.Intn(len(e.vals))]
					cctx, write := e.ctx.CacheContext()
					if _, err := e.ms.Redelegate(cctx, &types.MsgRedelegate{DelegatorAddress: u.String(), ValidatorSrcAddress: v.String(), ValidatorDstAddress: v2.String(), Amount: sdk.NewCoin(d, amt)}); err == nil {
						write()
					}
				case 8:
					cctx, write := e.ctx.CacheContext()
					if _, err := e.ms.ClaimDelegationRewards(cctx, &types.MsgClaimDelegationRewards{DelegatorAddress: u.String(), ValidatorAddress: v.String(), Denom: d}); err == nil {
						write()
					}
				case 9:
					if !created3 && blk > 30 {
						e.createAlliance(denoms[2], math.LegacyNewDec(2), math.LegacyZeroDec())
						created3 = true
						continue
					}
					a, found := e.app.AllianceKeeper.GetAssetByDenom(e.ctx, d)
					if !found {
						continue
					}
					w := math.LegacyNewDecWithPrec(r.Int63n(3000), 3)
					cctx, write := e.ctx.CacheContext()
					if _, err := e.ms.UpdateAlliance(cctx, &types.MsgUpdateAlliance{Authority: e.app.AllianceKeeper.GetAuthority(), Denom: d, RewardWeight: w, TakeRate: a.TakeRate, RewardChangeRate: a.RewardChangeRate, RewardChangeInterval: a.RewardChangeInterval, RewardWeightRange: a.RewardWeightRange}); err == nil {
						write()
					}
				}
				if dbg {
					t.Logf("AFTER %s", opDesc)
					e.diag()
				}
				slAfter, _ := e.slack("post-op")
				if slAfter.LT(slBefore.SubRaw(5)) {
					t.Logf("seed %d block %d: %s: slack %s -> %s", seed, blk, opDesc, slBefore, slAfter)
				}
			}
			if mode == 1 {
				e.claimAllReal()
			}
			if mode == 2 && r.Intn(10) == 0 {
				e.claimAllReal()
				v := e.vals[r.Intn(len(e.vals))]
				sv, err := e.app.StakingKeeper.GetValidator(e.ctx, v)
				require.NoError(t, err)
				if sv.IsBonded() {
					cons, _ := sv.GetConsAddr()
					p := sv.ConsensusPower(e.app.StakingKeeper.PowerReduction(e.ctx))
					_, err = e.app.StakingKeeper.Slash(e.ctx, cons, e.ctx.BlockHeight()-1, p, math.LegacyNewDecWithPrec(1+r.Int63n(20), 2))
					require.NoError(t, err)
				}
			}
			e.nextBlock(1 + r.Int63n(5_000_000))
			sl, err := e.slack(fmt.Sprintf("seed %d block %d", seed, blk))
			if err != nil {
				t.Fatalf("%v (pool %s)", err, e.pool())
			}
			if sl.LT(prevSlack.SubRaw(10)) {
				t.Logf("seed %d block %d: slack fell %s -> %s (%s)", seed, blk, prevSlack, sl, prevSlack.Sub(sl))
				drops++
				e.diag()
			}
			prevSlack = sl
		}
		// final: claim all for real, pool must not be negative (it cannot be) and report slack
		require.NoError(t, e.checkSolvent("final"))
		t.Logf("seed %d ok, pool %s slack %s drops %d", seed, e.pool(), prevSlack, drops)
	}
}

// C12: "total rewards paid out never exceed total rewards received ... and claiming in any order always succeeds".
// Everything is settled before the take rate deduction (nothing has accrued yet), so this is not the re-pricing of
// accrued rewards: rewards that arrive AFTER the deduction are indexed per validator.TotalTokensWithAsset (0.995) but
// paid per GetDelegationTokens, which adds types.Rounder (0.01) before truncating (1).
func huntRounder(t *testing.T, commissionV1 math.LegacyDec) (received math.Int, paid math.Int, claimErr error) {
	const denom = "alliance"
	e := huntSetup(t, 2, 2, sdk.NewCoins(sdk.NewCoin(denom, math.NewInt(1_000_000))), commissionV1, math.LegacyZeroDec())
	var err error
	// genesis params of huntSetup: take rate interval 5 minutes, clock started at the genesis block time
	e.createAlliance(denom, math.LegacyNewDec(1), math.LegacyNewDecWithPrec(5, 3)) // 0.5% per interval
	whale, small := e.users[0], e.users[1]
	e.nextBlock(0)
	_, err = e.ms.Delegate(e.ctx, &types.MsgDelegate{DelegatorAddress: whale.String(), ValidatorAddress: e.vals[0].String(), Amount: sdk.NewCoin(denom, math.NewInt(199))})
	require.NoError(t, err)
	_, err = e.ms.Delegate(e.ctx, &types.MsgDelegate{DelegatorAddress: small.String(), ValidatorAddress: e.vals[1].String(), Amount: sdk.NewCoin(denom, math.NewInt(1))})
	require.NoError(t, err)
	e.nextBlock(0)                     // end blocker: rebalance, the module stakes on both validators
	e.nextBlockAfter(0, 6*time.Minute) // 8 minutes after genesis: one interval is due. No rewards so far
	require.True(t, e.pool().IsZero(), "nothing was received so far: %s", e.pool())
	// settle everything before the deduction (there is nothing to settle, no rewards were allocated yet)
	e.claimAllReal()
	require.True(t, e.pool().IsZero())
	e.nextBlock(0) // end blocker of that block: the take rate is deducted once, 200 -> 199
	asset, _ := e.app.AllianceKeeper.GetAssetByDenom(e.ctx, denom)
	require.Equal(t, math.NewInt(199), asset.TotalTokens)
	// turn the take rate off (governance) so that only this one deduction is in play
	_, err = e.ms.UpdateAlliance(e.ctx, &types.MsgUpdateAlliance{Authority: e.app.AllianceKeeper.GetAuthority(), Denom: denom, RewardWeight: asset.RewardWeight,
		TakeRate: math.LegacyZeroDec(), RewardChangeRate: asset.RewardChangeRate, RewardChangeInterval: asset.RewardChangeInterval, RewardWeightRange: asset.RewardWeightRange})
	require.NoError(t, err)
	require.True(t, e.pool().IsZero(), "still nothing received: %s", e.pool())

	// rewards arrive only now, after the deduction
	for i := 0; i < 3; i++ {
		e.nextBlock(1_000_000_000)
	}
	av2, err := e.app.AllianceKeeper.GetAllianceValidator(e.ctx, e.vals[1])
	require.NoError(t, err)
	d, found := e.app.AllianceKeeper.GetDelegation(e.ctx, small, e.vals[1], denom)
	require.True(t, found)
	t.Logf("validator 2 holds %s tokens of the asset, the only position on it is valued %s for the payout", av2.TotalTokensWithAsset(asset), types.GetDelegationTokens(d, av2, asset).Amount)

	poolAddr := e.app.AccountKeeper.GetModuleAddress(types.RewardsPoolName)
	bal := func(a sdk.AccAddress) math.Int { return e.app.BankKeeper.GetBalance(e.ctx, a, e.bond).Amount }
	// settle both validators: this is everything the pool ever received
	for _, v := range e.vals {
		av, err := e.app.AllianceKeeper.GetAllianceValidator(e.ctx, v)
		require.NoError(t, err)
		_, err = e.app.AllianceKeeper.ClaimValidatorRewards(e.ctx, av)
		require.NoError(t, err)
	}
	received = bal(poolAddr)
	paid = math.ZeroInt()
	for _, c := range []struct {
		u sdk.AccAddress
		v sdk.ValAddress
	}{{small, e.vals[1]}, {whale, e.vals[0]}} {
		b0 := bal(c.u)
		cctx, write := e.ctx.CacheContext()
		_, err = e.ms.ClaimDelegationRewards(cctx, &types.MsgClaimDelegationRewards{DelegatorAddress: c.u.String(), ValidatorAddress: c.v.String(), Denom: denom})
		if err != nil {
			// what the claim wanted to pay
			av, _ := e.app.AllianceKeeper.GetAllianceValidator(e.ctx, c.v)
			dd, _ := e.app.AllianceKeeper.GetDelegation(e.ctx, c.u, c.v, denom)
			want, _, _ := e.app.AllianceKeeper.CalculateDelegationRewards(e.ctx, dd, av, asset)
			t.Logf("claim failed: wanted %s, pool holds %s: %v", want, e.pool(), err)
			return received, paid.Add(want.AmountOf(e.bond)), err
		}
		write()
		paid = paid.Add(bal(c.u).Sub(b0))
	}
	return received, paid, nil
}

// validator 1 keeps all rewards as commission: the pool holds only what validator 2 brought in, and the 1-token
// position on validator 2 is entitled to 1/0.995 of it: the claim fails
func TestHuntRounderClaimFails(t *testing.T) {
	received, paid, err := huntRounder(t, math.LegacyOneDec())
	t.Logf("received %s, claimable/paid %s", received, paid)
	require.NoError(t, err, "C12: claiming always succeeds")
	require.True(t, paid.LTE(received), "C12: paid %s > received %s", paid, received)
}

// with an ordinary commission difference (50%% / 0%%) both claims succeed but more is paid than was received
func TestHuntRounderPaidExceedsReceived(t *testing.T) {
	received, paid, err := huntRounder(t, math.LegacyNewDecWithPrec(5, 1))
	t.Logf("received %s, paid %s", received, paid)
	require.NoError(t, err, "C12: claiming always succeeds")
	require.True(t, paid.LTE(received), "C12: paid %s > received %s", paid, received)
}
