package tests_test

import (
	"fmt"
	"math/rand"
	"testing"
	"time"

	"cosmossdk.io/math"

	test_helpers "github.com/terra-money/alliance/app"
	"github.com/terra-money/alliance/x/alliance"
	"github.com/terra-money/alliance/x/alliance/keeper"
	"github.com/terra-money/alliance/x/alliance/types"

	abcitypes "github.com/cometbft/cometbft/abci/types"
	sdk "github.com/cosmos/cosmos-sdk/types"
	authtypes "github.com/cosmos/cosmos-sdk/x/auth/types"
	"github.com/cosmos/cosmos-sdk/x/gov"
	govkeeper "github.com/cosmos/cosmos-sdk/x/gov/keeper"
	govtypes "github.com/cosmos/cosmos-sdk/x/gov/types"
	govv1 "github.com/cosmos/cosmos-sdk/x/gov/types/v1"
	minttypes "github.com/cosmos/cosmos-sdk/x/mint/types"
	teststaking "github.com/cosmos/cosmos-sdk/x/staking/testutil"
	stakingtypes "github.com/cosmos/cosmos-sdk/x/staking/types"
	"github.com/stretchr/testify/require"
)

// ---------------------------------------------------------------------------------------------------------
// helpers
// ---------------------------------------------------------------------------------------------------------

type huntEnv struct {
	t        *testing.T
	app      *test_helpers.App
	ctx      sdk.Context
	ms       keeper.MsgServer
	gov      string
	stranger string
	vals     []sdk.ValAddress
	users    []sdk.AccAddress
	bond     string
}

func huntSetup(t *testing.T, nVals, nUsers int, denoms ...string) *huntEnv {
	app, ctx := createTestContext(t)
	start := time.Unix(1_700_000_000, 0).UTC()
	ctx = ctx.WithBlockTime(start).WithBlockHeight(1)
	app.AllianceKeeper.InitGenesis(ctx, &types.GenesisState{Params: types.DefaultParams()})
	bond, err := app.StakingKeeper.BondDenom(ctx)
	require.NoError(t, err)

	coins := sdk.NewCoins(sdk.NewCoin(bond, math.NewInt(1_000_000_000)))
	for _, d := range denoms {
		coins = coins.Add(sdk.NewCoin(d, math.NewInt(1_000_000_000)))
	}
	addrs := test_helpers.AddTestAddrsIncremental(app, ctx, nVals+nUsers, coins)
	pks := test_helpers.CreateTestPubKeys(nVals)
	env := &huntEnv{
		t: t, app: app, ctx: ctx, ms: keeper.MsgServer{Keeper: app.AllianceKeeper},
		gov:      authtypes.NewModuleAddress(govtypes.ModuleName).String(),
		stranger: addrs[nVals].String(),
		bond:     bond,
	}
	for i := 0; i < nVals; i++ {
		valAddr := sdk.ValAddress(addrs[i])
		v := teststaking.NewValidator(t, valAddr, pks[i])
		v.Commission = stakingtypes.Commission{
			CommissionRates: stakingtypes.CommissionRates{Rate: math.LegacyZeroDec(), MaxRate: math.LegacyOneDec(), MaxChangeRate: math.LegacyZeroDec()},
			UpdateTime:      start,
		}
		test_helpers.RegisterNewValidator(t, app, ctx, v)
		// give it real native stake through x/staking
		sv, err := app.StakingKeeper.GetValidator(ctx, valAddr)
		require.NoError(t, err)
		_, err = app.StakingKeeper.Delegate(ctx, addrs[i], math.NewInt(5_000_000), stakingtypes.Unbonded, sv, true)
		require.NoError(t, err)
		env.vals = append(env.vals, valAddr)
	}
	env.users = addrs[nVals:]
	return env
}

// tx runs f like a delivered transaction: state is only kept when f succeeds, a panic is a failure
func (e *huntEnv) tx(f func(ctx sdk.Context) error) (err error) {
	cctx, write := e.ctx.CacheContext()
	defer func() {
		if r := recover(); r != nil {
			err = fmt.Errorf("panic: %v", r)
		}
	}()
	err = f(cctx)
	if err == nil {
		write()
	}
	return err
}

// raw runs f directly on the block context (no tx rollback): used to observe what a rejected request wrote
func (e *huntEnv) raw(f func(ctx sdk.Context) error) (err error) {
	defer func() {
		if r := recover(); r != nil {
			err = fmt.Errorf("panic: %v", r)
		}
	}()
	return f(e.ctx)
}

func (e *huntEnv) dump() string {
	g := e.app.AllianceKeeper.ExportGenesis(e.ctx)
	bz, err := e.app.AppCodec().MarshalJSON(g)
	require.NoError(e.t, err)
	flag := "noflag"
	b, _ := e.app.AllianceKeeper.StoreService().OpenKVStore(e.ctx).Get(types.AssetRebalanceQueueKey)
	if b != nil {
		flag = "flag"
	}
	return string(bz) + flag
}

func huntAssetValid(a types.AllianceAsset) error {
	if a.TakeRate.IsNil() || a.TakeRate.IsNegative() || a.TakeRate.GTE(math.LegacyOneDec()) {
		return fmt.Errorf("%s: takeRate %s outside [0,1)", a.Denom, a.TakeRate)
	}
	if a.RewardWeight.IsNil() || a.RewardWeightRange.Min.IsNil() || a.RewardWeightRange.Max.IsNil() {
		return fmt.Errorf("%s: nil weight/range", a.Denom)
	}
	if a.RewardWeight.LT(a.RewardWeightRange.Min) || a.RewardWeight.GT(a.RewardWeightRange.Max) {
		return fmt.Errorf("%s: weight %s outside [%s,%s]", a.Denom, a.RewardWeight, a.RewardWeightRange.Min, a.RewardWeightRange.Max)
	}
	if a.RewardChangeRate.IsNil() || !a.RewardChangeRate.IsPositive() {
		return fmt.Errorf("%s: changeRate %s not > 0", a.Denom, a.RewardChangeRate)
	}
	if a.RewardChangeInterval < 0 {
		return fmt.Errorf("%s: changeInterval %d < 0", a.Denom, a.RewardChangeInterval)
	}
	return nil
}

func (e *huntEnv) checkAssets(where string) {
	for _, a := range e.app.AllianceKeeper.GetAllAssets(e.ctx) {
		require.NoError(e.t, huntAssetValid(*a), where)
	}
}

// stakedValue sums the token value of every delegation of the denom
func (e *huntEnv) stakedValue(denom string) math.Int {
	total := math.ZeroInt()
	asset, found := e.app.AllianceKeeper.GetAssetByDenom(e.ctx, denom)
	if !found {
		return total
	}
	_ = e.app.AllianceKeeper.IterateDelegations(e.ctx, func(d types.Delegation) bool {
		if d.Denom != denom {
			return false
		}
		valAddr, _ := sdk.ValAddressFromBech32(d.ValidatorAddress)
		val, err := e.app.AllianceKeeper.GetAllianceValidator(e.ctx, valAddr)
		if err != nil {
			return false
		}
		total = total.Add(types.GetDelegationTokens(d, val, asset).Amount)
		return false
	})
	return total
}

func (e *huntEnv) allocate(amount int64) {
	require.NoError(e.t, e.app.BankKeeper.MintCoins(e.ctx, minttypes.ModuleName, sdk.NewCoins(sdk.NewCoin(e.bond, math.NewInt(amount)))))
	require.NoError(e.t, e.app.BankKeeper.SendCoinsFromModuleToModule(e.ctx, minttypes.ModuleName, authtypes.FeeCollectorName, sdk.NewCoins(sdk.NewCoin(e.bond, math.NewInt(amount)))))
	var votes []abcitypes.VoteInfo
	total := int64(0)
	vals, err := e.app.StakingKeeper.GetBondedValidatorsByPower(e.ctx)
	require.NoError(e.t, err)
	for _, v := range vals {
		cons, _ := v.GetConsAddr()
		p := v.ConsensusPower(e.app.StakingKeeper.PowerReduction(e.ctx))
		votes = append(votes, abcitypes.VoteInfo{Validator: abcitypes.Validator{Address: cons, Power: p}})
		total += p
	}
	require.NoError(e.t, e.app.DistrKeeper.AllocateTokens(e.ctx, total, votes))
}

// endBlock runs the end blockers of x/staking and x/alliance in the app's order and opens the next block
func (e *huntEnv) endBlock(dt time.Duration) {
	_, err := e.app.StakingKeeper.EndBlocker(e.ctx)
	require.NoError(e.t, err)
	require.NoError(e.t, alliance.EndBlocker(e.ctx, e.app.AllianceKeeper))
	e.ctx = e.ctx.WithBlockHeight(e.ctx.BlockHeight() + 1).WithBlockTime(e.ctx.BlockTime().Add(dt))
}

func dec(s string) math.LegacyDec { return math.LegacyMustNewDecFromStr(s) }

// ---------------------------------------------------------------------------------------------------------
// 1. governance gate: a request that is rejected (wrong signer or invalid values) leaves the store untouched,
//    also when it is observed without the transaction rollback
// ---------------------------------------------------------------------------------------------------------

func TestHuntC16GateRejectedRequestsWriteNothing(t *testing.T) {
	e := huntSetup(t, 2, 3, AllianceDenom, AllianceDenomTwo)
	okRange := types.RewardWeightRange{Min: dec("0.1"), Max: dec("5")}

	require.NoError(t, e.tx(func(ctx sdk.Context) error {
		_, err := e.ms.CreateAlliance(ctx, &types.MsgCreateAlliance{Authority: e.gov, Denom: AllianceDenom, RewardWeight: dec("1"), RewardWeightRange: okRange, TakeRate: dec("0.1"), RewardChangeRate: dec("0.9"), RewardChangeInterval: time.Hour})
		return err
	}))
	// activate, stake on two validators, let rewards accrue so that an update has something to settle
	e.ctx = e.ctx.WithBlockTime(e.ctx.BlockTime().Add(8 * 24 * time.Hour))
	for i, v := range e.vals {
		v := v
		require.NoError(t, e.tx(func(ctx sdk.Context) error {
			_, err := e.ms.Delegate(ctx, types.NewMsgDelegate(e.users[i].String(), v.String(), sdk.NewCoin(AllianceDenom, math.NewInt(1_000_000))))
			return err
		}))
	}
	e.endBlock(time.Minute)
	e.allocate(1_000_000)

	type req struct {
		name string
		f    func(ctx sdk.Context) error
	}
	upd := func(m types.MsgUpdateAlliance) func(ctx sdk.Context) error {
		return func(ctx sdk.Context) error { _, err := e.ms.UpdateAlliance(ctx, &m); return err }
	}
	crt := func(m types.MsgCreateAlliance) func(ctx sdk.Context) error {
		return func(ctx sdk.Context) error { _, err := e.ms.CreateAlliance(ctx, &m); return err }
	}
	goodUpd := types.MsgUpdateAlliance{Authority: e.gov, Denom: AllianceDenom, RewardWeight: dec("2"), RewardWeightRange: okRange, TakeRate: dec("0.2"), RewardChangeRate: dec("0.5"), RewardChangeInterval: time.Minute}
	goodCrt := types.MsgCreateAlliance{Authority: e.gov, Denom: AllianceDenomTwo, RewardWeight: dec("1"), RewardWeightRange: okRange, TakeRate: dec("0"), RewardChangeRate: dec("1"), RewardChangeInterval: 0}
	with := func(m types.MsgUpdateAlliance, f func(*types.MsgUpdateAlliance)) types.MsgUpdateAlliance { f(&m); return m }
	withC := func(m types.MsgCreateAlliance, f func(*types.MsgCreateAlliance)) types.MsgCreateAlliance { f(&m); return m }

	reqs := []req{
		{"update/stranger", upd(with(goodUpd, func(m *types.MsgUpdateAlliance) { m.Authority = e.stranger }))},
		{"update/module-addr", upd(with(goodUpd, func(m *types.MsgUpdateAlliance) { m.Authority = authtypes.NewModuleAddress(types.ModuleName).String() }))},
		{"update/empty-auth", upd(with(goodUpd, func(m *types.MsgUpdateAlliance) { m.Authority = "" }))},
		{"update/takeRate=1", upd(with(goodUpd, func(m *types.MsgUpdateAlliance) { m.TakeRate = dec("1") }))},
		{"update/takeRate<0", upd(with(goodUpd, func(m *types.MsgUpdateAlliance) { m.TakeRate = dec("-0.1") }))},
		{"update/weight>max", upd(with(goodUpd, func(m *types.MsgUpdateAlliance) { m.RewardWeight = dec("5.000000000000000001") }))},
		{"update/weight<min", upd(with(goodUpd, func(m *types.MsgUpdateAlliance) { m.RewardWeight = dec("0.099999999999999999") }))},
		{"update/min>max", upd(with(goodUpd, func(m *types.MsgUpdateAlliance) {
			m.RewardWeightRange = types.RewardWeightRange{Min: dec("3"), Max: dec("1")}
		}))},
		{"update/nil-range", upd(with(goodUpd, func(m *types.MsgUpdateAlliance) { m.RewardWeightRange = types.RewardWeightRange{} }))},
		{"update/nil-max", upd(with(goodUpd, func(m *types.MsgUpdateAlliance) { m.RewardWeightRange = types.RewardWeightRange{Min: dec("0")} }))},
		{"update/rate=0", upd(with(goodUpd, func(m *types.MsgUpdateAlliance) { m.RewardChangeRate = dec("0") }))},
		{"update/rate<0", upd(with(goodUpd, func(m *types.MsgUpdateAlliance) { m.RewardChangeRate = dec("-1") }))},
		{"update/nil-rate", upd(with(goodUpd, func(m *types.MsgUpdateAlliance) { m.RewardChangeRate = math.LegacyDec{} }))},
		{"update/interval<0", upd(with(goodUpd, func(m *types.MsgUpdateAlliance) { m.RewardChangeInterval = -1 }))},
		{"update/unknown", upd(with(goodUpd, func(m *types.MsgUpdateAlliance) { m.Denom = "nothere" }))},
		{"create/stranger", crt(withC(goodCrt, func(m *types.MsgCreateAlliance) { m.Authority = e.stranger }))},
		{"create/duplicate", crt(withC(goodCrt, func(m *types.MsgCreateAlliance) { m.Denom = AllianceDenom }))},
		{"create/bond-denom", crt(withC(goodCrt, func(m *types.MsgCreateAlliance) { m.Denom = e.bond }))},
		{"create/takeRate=1", crt(withC(goodCrt, func(m *types.MsgCreateAlliance) { m.TakeRate = dec("1") }))},
		{"create/weight>max", crt(withC(goodCrt, func(m *types.MsgCreateAlliance) { m.RewardWeight = dec("6") }))},
		{"create/min>max", crt(withC(goodCrt, func(m *types.MsgCreateAlliance) {
			m.RewardWeightRange = types.RewardWeightRange{Min: dec("2"), Max: dec("1")}
			m.RewardWeight = dec("1.5")
		}))},
		{"create/nil-range", crt(withC(goodCrt, func(m *types.MsgCreateAlliance) { m.RewardWeightRange = types.RewardWeightRange{} }))},
		{"create/rate=0", crt(withC(goodCrt, func(m *types.MsgCreateAlliance) { m.RewardChangeRate = dec("0") }))},
		{"create/nil-rate", crt(withC(goodCrt, func(m *types.MsgCreateAlliance) { m.RewardChangeRate = math.LegacyDec{} }))},
		{"create/interval<0", crt(withC(goodCrt, func(m *types.MsgCreateAlliance) { m.RewardChangeInterval = -5 }))},
		{"create/bad-denom", crt(withC(goodCrt, func(m *types.MsgCreateAlliance) { m.Denom = "1x" }))},
		{"delete/stranger", func(ctx sdk.Context) error {
			_, err := e.ms.DeleteAlliance(ctx, &types.MsgDeleteAlliance{Authority: e.stranger, Denom: AllianceDenom})
			return err
		}},
		{"delete/staked", func(ctx sdk.Context) error {
			_, err := e.ms.DeleteAlliance(ctx, &types.MsgDeleteAlliance{Authority: e.gov, Denom: AllianceDenom})
			return err
		}},
		{"delete/unknown", func(ctx sdk.Context) error {
			_, err := e.ms.DeleteAlliance(ctx, &types.MsgDeleteAlliance{Authority: e.gov, Denom: "nothere"})
			return err
		}},
		{"params/stranger", func(ctx sdk.Context) error {
			_, err := e.ms.UpdateParams(ctx, &types.MsgUpdateParams{Authority: e.stranger, Params: types.Params{RewardDelayTime: 1, TakeRateClaimInterval: 1}})
			return err
		}},
		{"params/interval=0", func(ctx sdk.Context) error {
			_, err := e.ms.UpdateParams(ctx, &types.MsgUpdateParams{Authority: e.gov, Params: types.Params{RewardDelayTime: 1, TakeRateClaimInterval: 0}})
			return err
		}},
		{"params/delay<0", func(ctx sdk.Context) error {
			_, err := e.ms.UpdateParams(ctx, &types.MsgUpdateParams{Authority: e.gov, Params: types.Params{RewardDelayTime: -1, TakeRateClaimInterval: 1}})
			return err
		}},
	}
	for _, r := range reqs {
		before := e.dump()
		err := e.raw(r.f)
		require.Error(t, err, r.name)
		require.Equal(t, before, e.dump(), "rejected request %s changed state (%v)", r.name, err)
	}
	e.checkAssets("after rejected requests")

	// the valid update goes through and keeps the protected fields
	before, _ := e.app.AllianceKeeper.GetAssetByDenom(e.ctx, AllianceDenom)
	require.NoError(t, e.tx(upd(goodUpd)))
	after, _ := e.app.AllianceKeeper.GetAssetByDenom(e.ctx, AllianceDenom)
	require.Equal(t, before.TotalTokens, after.TotalTokens)
	require.Equal(t, before.TotalValidatorShares, after.TotalValidatorShares)
	require.Equal(t, before.Denom, after.Denom)
	require.Equal(t, before.RewardStartTime, after.RewardStartTime)
	require.Equal(t, before.IsInitialized, after.IsInitialized)
	require.NoError(t, e.tx(crt(goodCrt)))
	e.checkAssets("after accepted requests")
}

// ---------------------------------------------------------------------------------------------------------
// 2. random walk over all entry points, asset clauses checked after every step
// ---------------------------------------------------------------------------------------------------------

func TestHuntC16RandomWalk(t *testing.T) {
	for seed := int64(1); seed <= 6; seed++ {
		seed := seed
		t.Run(fmt.Sprintf("seed%d", seed), func(t *testing.T) { huntRandomWalk(t, seed, 350) })
	}
}

func huntRandomWalk(t *testing.T, seed int64, steps int) {
	r := rand.New(rand.NewSource(seed))
	denoms := []string{AllianceDenom, AllianceDenomTwo, "alliance3"}
	e := huntSetup(t, 3, 4, denoms...)
	require.NoError(t, e.tx(func(ctx sdk.Context) error {
		_, err := e.ms.UpdateParams(ctx, &types.MsgUpdateParams{Authority: e.gov, Params: types.Params{RewardDelayTime: 2 * time.Minute, TakeRateClaimInterval: time.Minute}})
		return err
	}))
	// short unbonding time so that completions happen during the walk
	sp, err := e.app.StakingKeeper.GetParams(e.ctx)
	require.NoError(t, err)
	sp.UnbondingTime = 10 * time.Minute
	require.NoError(t, e.app.StakingKeeper.SetParams(e.ctx, sp))

	randDec := func(lo, hi float64) math.LegacyDec {
		return dec(fmt.Sprintf("%.6f", lo+r.Float64()*(hi-lo)))
	}
	randParams := func() (w math.LegacyDec, rg types.RewardWeightRange, take, rate math.LegacyDec, iv time.Duration) {
		lo := randDec(0, 1)
		hi := lo.Add(randDec(0, 3))
		w = lo.Add(hi.Sub(lo).Mul(randDec(0, 1)))
		if r.Intn(6) == 0 {
			w = lo
		}
		if r.Intn(6) == 0 {
			w = hi
		}
		rg = types.RewardWeightRange{Min: lo, Max: hi}
		take = randDec(0, 0.3)
		if r.Intn(3) == 0 {
			take = math.LegacyZeroDec()
		}
		rate = randDec(0.5, 1.5)
		if r.Intn(4) == 0 {
			rate = math.LegacyOneDec()
		}
		iv = time.Duration(r.Intn(4)) * time.Minute
		return
	}
	accepted, rejected := 0, 0
	okOps := map[string]int{}
	count := func(name string, err error) {
		if err == nil {
			okOps[name]++
		} else {
			okOps[name+"/fail"]++
		}
	}
	for step := 0; step < steps; step++ {
		denom := denoms[r.Intn(len(denoms))]
		user := e.users[r.Intn(len(e.users))]
		val := e.vals[r.Intn(len(e.vals))]
		val2 := e.vals[r.Intn(len(e.vals))]
		amt := math.NewInt(int64(1 + r.Intn(2_000_000)))
		if r.Intn(5) == 0 {
			amt = math.NewInt(int64(1 + r.Intn(5)))
		}
		where := fmt.Sprintf("seed %d step %d", seed, step)
		switch op := r.Intn(16); op {
		case 0, 1, 2:
			count("delegate", e.tx(func(ctx sdk.Context) error {
				_, err := e.ms.Delegate(ctx, types.NewMsgDelegate(user.String(), val.String(), sdk.NewCoin(denom, amt)))
				return err
			}))
		case 3, 4:
			// undelegate: often the complete reported balance
			asset, found := e.app.AllianceKeeper.GetAssetByDenom(e.ctx, denom)
			if d, ok := e.app.AllianceKeeper.GetDelegation(e.ctx, user, val, denom); ok && found && r.Intn(2) == 0 {
				v, err := e.app.AllianceKeeper.GetAllianceValidator(e.ctx, val)
				if err == nil {
					if bal := types.GetDelegationTokens(d, v, asset).Amount; bal.IsPositive() {
						amt = bal
					}
				}
			}
			count("undelegate", e.tx(func(ctx sdk.Context) error {
				_, err := e.ms.Undelegate(ctx, types.NewMsgUndelegate(user.String(), val.String(), sdk.NewCoin(denom, amt)))
				return err
			}))
		case 5:
			count("redelegate", e.tx(func(ctx sdk.Context) error {
				_, err := e.ms.Redelegate(ctx, types.NewMsgRedelegate(user.String(), val.String(), val2.String(), sdk.NewCoin(denom, amt)))
				return err
			}))
		case 6:
			count("claim", e.tx(func(ctx sdk.Context) error {
				_, err := e.ms.ClaimDelegationRewards(ctx, types.NewMsgClaimDelegationRewards(user.String(), val.String(), denom))
				return err
			}))
		case 7:
			// create
			_, existed := e.app.AllianceKeeper.GetAssetByDenom(e.ctx, denom)
			w, rg, take, rate, iv := randParams()
			auth := e.gov
			if r.Intn(4) == 0 {
				auth = e.stranger
			}
			before := e.dump()
			err := e.tx(func(ctx sdk.Context) error {
				_, err := e.ms.CreateAlliance(ctx, &types.MsgCreateAlliance{Authority: auth, Denom: denom, RewardWeight: w, RewardWeightRange: rg, TakeRate: take, RewardChangeRate: rate, RewardChangeInterval: iv})
				return err
			})
			count("create", err)
			if err == nil {
				accepted++
				require.Equal(t, e.gov, auth, where)
				require.False(t, existed, "%s: %s whitelisted twice", where, denom)
			} else {
				rejected++
				require.Equal(t, before, e.dump(), where)
			}
		case 8, 9:
			// update
			old, existed := e.app.AllianceKeeper.GetAssetByDenom(e.ctx, denom)
			w, rg, take, rate, iv := randParams()
			auth := e.gov
			if r.Intn(4) == 0 {
				auth = e.stranger
			}
			if r.Intn(5) == 0 {
				// weight outside of the new range
				w = rg.Max.Add(dec("0.000000000000000001"))
			}
			before := e.dump()
			err := e.raw(func(ctx sdk.Context) error {
				_, err := e.ms.UpdateAlliance(ctx, &types.MsgUpdateAlliance{Authority: auth, Denom: denom, RewardWeight: w, RewardWeightRange: rg, TakeRate: take, RewardChangeRate: rate, RewardChangeInterval: iv})
				return err
			})
			count("update", err)
			if err == nil {
				accepted++
				require.Equal(t, e.gov, auth, where)
				require.True(t, existed, where)
				now, _ := e.app.AllianceKeeper.GetAssetByDenom(e.ctx, denom)
				require.Equal(t, old.TotalTokens, now.TotalTokens, where)
				require.Equal(t, old.TotalValidatorShares, now.TotalValidatorShares, where)
				require.Equal(t, old.Denom, now.Denom, where)
				require.Equal(t, old.RewardStartTime, now.RewardStartTime, where)
				require.Equal(t, w, now.RewardWeight, where)
			} else {
				rejected++
				require.Equal(t, before, e.dump(), "%s: rejected update changed state: %v", where, err)
			}
		case 10:
			// delete
			staked := e.stakedValue(denom)
			auth := e.gov
			if r.Intn(4) == 0 {
				auth = e.stranger
			}
			before := e.dump()
			err := e.raw(func(ctx sdk.Context) error {
				_, err := e.ms.DeleteAlliance(ctx, &types.MsgDeleteAlliance{Authority: auth, Denom: denom})
				return err
			})
			count("delete", err)
			if err == nil {
				accepted++
				require.Equal(t, e.gov, auth, where)
				require.True(t, staked.IsZero(), "%s: %s deleted while %s is staked in it", where, denom, staked)
			} else {
				rejected++
				require.Equal(t, before, e.dump(), where)
			}
		case 11:
			// slash through x/slashing / x/staking
			sv, err := e.app.StakingKeeper.GetValidator(e.ctx, val)
			if err == nil && sv.IsBonded() {
				cons, _ := sv.GetConsAddr()
				power := sv.GetConsensusPower(e.app.StakingKeeper.PowerReduction(e.ctx))
				count("slash", e.tx(func(ctx sdk.Context) error {
					return e.app.SlashingKeeper.Slash(ctx, cons, dec("0.05"), power, ctx.BlockHeight()-1)
				}))
			}
		case 12:
			e.allocate(int64(1 + r.Intn(3_000_000)))
		default:
			e.endBlock(time.Duration(1+r.Intn(240)) * time.Second)
		}
		e.checkAssets(where)
	}
	t.Logf("seed %d: %d governance requests accepted, %d rejected; ops %v", seed, accepted, rejected, okOps)

	// genesis round trip of the state the walk produced: same assets, all of them valid
	exported := e.app.AllianceKeeper.ExportGenesis(e.ctx)
	bz, err := e.app.AppCodec().MarshalJSON(exported)
	require.NoError(t, err)
	var imported types.GenesisState
	require.NoError(t, e.app.AppCodec().UnmarshalJSON(bz, &imported))
	app2, ctx2 := createTestContext(t)
	ctx2 = ctx2.WithBlockTime(e.ctx.BlockTime()).WithBlockHeight(e.ctx.BlockHeight())
	app2.AllianceKeeper.InitGenesis(ctx2, &imported)
	got := app2.AllianceKeeper.GetAllAssets(ctx2)
	want := e.app.AllianceKeeper.GetAllAssets(e.ctx)
	require.Equal(t, len(want), len(got))
	for i := range want {
		require.NoError(t, huntAssetValid(*got[i]))
		require.Equal(t, want[i].String(), got[i].String(), "asset %s differs after import", want[i].Denom)
	}
	p1, p2 := e.app.AllianceKeeper.GetParams(e.ctx), app2.AllianceKeeper.GetParams(ctx2)
	require.Equal(t, p1.String(), p2.String())
}

// ---------------------------------------------------------------------------------------------------------
// 3. walk biased towards complete exits: deletion is attempted after every step and must only succeed
//    while no delegation of the denom is worth a single unit; the denom is whitelisted again afterwards
// ---------------------------------------------------------------------------------------------------------

func TestHuntC16DeleteOnlyWhenNothingStaked(t *testing.T) {
	deleted := 0
	for seed := int64(1); seed <= 12; seed++ {
		r := rand.New(rand.NewSource(seed * 7919))
		e := huntSetup(t, 3, 3, AllianceDenom)
		require.NoError(t, e.tx(func(ctx sdk.Context) error {
			_, err := e.ms.UpdateParams(ctx, &types.MsgUpdateParams{Authority: e.gov, Params: types.Params{RewardDelayTime: time.Minute, TakeRateClaimInterval: time.Minute}})
			return err
		}))
		sp, err := e.app.StakingKeeper.GetParams(e.ctx)
		require.NoError(t, err)
		sp.UnbondingTime = 5 * time.Minute
		require.NoError(t, e.app.StakingKeeper.SetParams(e.ctx, sp))
		create := func() {
			take := dec("0")
			if r.Intn(2) == 0 {
				take = dec(fmt.Sprintf("0.%02d", 1+r.Intn(40)))
			}
			require.NoError(t, e.tx(func(ctx sdk.Context) error {
				_, err := e.ms.CreateAlliance(ctx, &types.MsgCreateAlliance{Authority: e.gov, Denom: AllianceDenom, RewardWeight: dec("1"), RewardWeightRange: types.RewardWeightRange{Min: dec("0"), Max: dec("2")}, TakeRate: take, RewardChangeRate: dec("1"), RewardChangeInterval: 0})
				return err
			}))
		}
		create()
		for step := 0; step < 400; step++ {
			where := fmt.Sprintf("seed %d step %d", seed, step)
			user := e.users[r.Intn(len(e.users))]
			val := e.vals[r.Intn(len(e.vals))]
			val2 := e.vals[r.Intn(len(e.vals))]
			balance := func() math.Int {
				asset, _ := e.app.AllianceKeeper.GetAssetByDenom(e.ctx, AllianceDenom)
				d, ok := e.app.AllianceKeeper.GetDelegation(e.ctx, user, val, AllianceDenom)
				if !ok {
					return math.ZeroInt()
				}
				v, err := e.app.AllianceKeeper.GetAllianceValidator(e.ctx, val)
				require.NoError(t, err)
				return types.GetDelegationTokens(d, v, asset).Amount
			}
			switch r.Intn(9) {
			case 0, 1:
				amt := math.NewInt(int64(1 + r.Intn(300)))
				_ = e.tx(func(ctx sdk.Context) error {
					_, err := e.ms.Delegate(ctx, types.NewMsgDelegate(user.String(), val.String(), sdk.NewCoin(AllianceDenom, amt)))
					return err
				})
			case 2, 3, 4:
				if bal := balance(); bal.IsPositive() {
					_ = e.tx(func(ctx sdk.Context) error {
						_, err := e.ms.Undelegate(ctx, types.NewMsgUndelegate(user.String(), val.String(), sdk.NewCoin(AllianceDenom, bal)))
						return err
					})
				}
			case 5:
				if bal := balance(); bal.IsPositive() {
					_ = e.tx(func(ctx sdk.Context) error {
						_, err := e.ms.Redelegate(ctx, types.NewMsgRedelegate(user.String(), val.String(), val2.String(), sdk.NewCoin(AllianceDenom, bal)))
						return err
					})
				}
			case 6:
				sv, err := e.app.StakingKeeper.GetValidator(e.ctx, val)
				if err == nil && sv.IsBonded() {
					cons, _ := sv.GetConsAddr()
					power := sv.GetConsensusPower(e.app.StakingKeeper.PowerReduction(e.ctx))
					_ = e.tx(func(ctx sdk.Context) error {
						return e.app.SlashingKeeper.Slash(ctx, cons, dec("0.1"), power, ctx.BlockHeight()-1)
					})
				}
			default:
				e.endBlock(time.Duration(30+r.Intn(200)) * time.Second)
			}
			e.checkAssets(where)

			staked := e.stakedValue(AllianceDenom)
			err := e.tx(func(ctx sdk.Context) error {
				_, err := e.ms.DeleteAlliance(ctx, &types.MsgDeleteAlliance{Authority: e.gov, Denom: AllianceDenom})
				return err
			})
			if err == nil {
				deleted++
				require.True(t, staked.IsZero(), "%s: deleted while %s is staked", where, staked)
				_, found := e.app.AllianceKeeper.GetAssetByDenom(e.ctx, AllianceDenom)
				require.False(t, found)
				create()
				// whitelisting it a second time while it exists is refused
				require.Error(t, e.tx(func(ctx sdk.Context) error {
					_, err := e.ms.CreateAlliance(ctx, &types.MsgCreateAlliance{Authority: e.gov, Denom: AllianceDenom, RewardWeight: dec("1"), RewardWeightRange: types.RewardWeightRange{Min: dec("0"), Max: dec("2")}, TakeRate: dec("0"), RewardChangeRate: dec("1"), RewardChangeInterval: 0})
					return err
				}))
			}
		}
	}
	t.Logf("deletions: %d", deleted)
}

// ---------------------------------------------------------------------------------------------------------
// 4. the real governance path: only a proposal whose message is signed by the gov account is accepted,
//    a proposal with invalid asset parameters fails in the gov end blocker without touching the store
// ---------------------------------------------------------------------------------------------------------

func TestHuntC16ThroughGov(t *testing.T) {
	e := huntSetup(t, 3, 2, AllianceDenom)
	govMs := govkeeper.NewMsgServerImpl(&e.app.GovKeeper)
	gp, err := e.app.GovKeeper.Params.Get(e.ctx)
	require.NoError(t, err)
	okRange := types.RewardWeightRange{Min: dec("0.1"), Max: dec("5")}
	submit := func(proposer sdk.AccAddress, msg sdk.Msg) (uint64, error) {
		m, err := govv1.NewMsgSubmitProposal([]sdk.Msg{msg}, gp.MinDeposit, proposer.String(), "", "t", "s", false)
		require.NoError(t, err)
		var id uint64
		err = e.tx(func(ctx sdk.Context) error {
			res, err := govMs.SubmitProposal(ctx, m)
			if err == nil {
				id = res.ProposalId
			}
			return err
		})
		return id, err
	}
	pass := func(id uint64) govv1.ProposalStatus {
		for i := range e.vals {
			acc := sdk.AccAddress(e.vals[i])
			require.NoError(t, e.tx(func(ctx sdk.Context) error {
				_, err := govMs.Vote(ctx, govv1.NewMsgVote(acc, id, govv1.OptionYes, ""))
				return err
			}))
		}
		e.ctx = e.ctx.WithBlockTime(e.ctx.BlockTime().Add(*gp.VotingPeriod).Add(time.Second)).WithBlockHeight(e.ctx.BlockHeight() + 1)
		require.NoError(t, gov.EndBlocker(e.ctx, &e.app.GovKeeper))
		p, err := e.app.GovKeeper.Proposals.Get(e.ctx, id)
		require.NoError(t, err)
		return p.Status
	}

	// a stranger cannot smuggle in an authority message, neither under its own name nor under the gov address
	_, err = submit(e.users[0], &types.MsgCreateAlliance{Authority: e.users[0].String(), Denom: AllianceDenom, RewardWeight: dec("1"), RewardWeightRange: okRange, TakeRate: dec("0"), RewardChangeRate: dec("1")})
	require.Error(t, err)
	_, found := e.app.AllianceKeeper.GetAssetByDenom(e.ctx, AllianceDenom)
	require.False(t, found)

	// valid proposal
	id, err := submit(e.users[0], &types.MsgCreateAlliance{Authority: e.gov, Denom: AllianceDenom, RewardWeight: dec("1"), RewardWeightRange: okRange, TakeRate: dec("0.5"), RewardChangeRate: dec("1")})
	require.NoError(t, err)
	require.Equal(t, govv1.StatusPassed, pass(id))
	created, found := e.app.AllianceKeeper.GetAssetByDenom(e.ctx, AllianceDenom)
	require.True(t, found)
	require.NoError(t, huntAssetValid(created))

	// invalid parameters (also the ones that make the handler panic) fail and write nothing
	bad := []types.MsgUpdateAlliance{
		{Authority: e.gov, Denom: AllianceDenom, RewardWeight: dec("1"), RewardWeightRange: types.RewardWeightRange{}, TakeRate: dec("0"), RewardChangeRate: dec("1")},
		{Authority: e.gov, Denom: AllianceDenom, RewardWeight: dec("6"), RewardWeightRange: okRange, TakeRate: dec("0"), RewardChangeRate: dec("1")},
		{Authority: e.gov, Denom: AllianceDenom, RewardWeight: dec("1"), RewardWeightRange: okRange, TakeRate: dec("1"), RewardChangeRate: dec("1")},
		{Authority: e.gov, Denom: AllianceDenom, RewardWeight: dec("1"), RewardWeightRange: okRange, TakeRate: dec("0")},
		{Authority: e.gov, Denom: AllianceDenom, RewardWeight: dec("1"), RewardWeightRange: types.RewardWeightRange{Min: dec("3"), Max: dec("0.5")}, TakeRate: dec("0"), RewardChangeRate: dec("1")},
	}
	for i := range bad {
		id, err := submit(e.users[0], &bad[i])
		require.NoError(t, err, "proposal %d", i)
		before := e.dump()
		require.Equal(t, govv1.StatusFailed, pass(id), "proposal %d", i)
		require.Equal(t, before, e.dump(), "proposal %d", i)
	}
	// duplicate whitelisting through gov
	id, err = submit(e.users[0], &types.MsgCreateAlliance{Authority: e.gov, Denom: AllianceDenom, RewardWeight: dec("2"), RewardWeightRange: okRange, TakeRate: dec("0"), RewardChangeRate: dec("1")})
	require.NoError(t, err)
	require.Equal(t, govv1.StatusFailed, pass(id))
	now, _ := e.app.AllianceKeeper.GetAssetByDenom(e.ctx, AllianceDenom)
	require.Equal(t, created, now)

	// the legacy content route of the module is not wired: a legacy alliance proposal cannot be submitted at all
	content := types.NewMsgCreateAllianceProposal("t", "d", AllianceDenomTwo, dec("1"), okRange, dec("0"), dec("1"), 0)
	legacy, err := govv1.NewLegacyContent(content, e.gov)
	require.NoError(t, err)
	_, err = submit(e.users[0], legacy)
	require.Error(t, err)
}
