package tests_test

import (
	"fmt"
	"math/rand"
	"testing"
	"time"

	"cosmossdk.io/math"
	abcitypes "github.com/cometbft/cometbft/abci/types"
	sdk "github.com/cosmos/cosmos-sdk/types"
	authtypes "github.com/cosmos/cosmos-sdk/x/auth/types"
	minttypes "github.com/cosmos/cosmos-sdk/x/mint/types"
	teststaking "github.com/cosmos/cosmos-sdk/x/staking/testutil"
	stakingtypes "github.com/cosmos/cosmos-sdk/x/staking/types"
	"github.com/stretchr/testify/require"

	test_helpers "github.com/terra-money/alliance/app"
	"github.com/terra-money/alliance/x/alliance"
	"github.com/terra-money/alliance/x/alliance/keeper"
	"github.com/terra-money/alliance/x/alliance/types"
)

func huntPosValue(t *testing.T, app *test_helpers.App, ctx sdk.Context, del sdk.AccAddress, valAddr sdk.ValAddress, denom string) math.LegacyDec {
	d, found := app.AllianceKeeper.GetDelegation(ctx, del, valAddr, denom)
	if !found {
		return math.LegacyZeroDec()
	}
	val, err := app.AllianceKeeper.GetAllianceValidator(ctx, valAddr)
	require.NoError(t, err)
	asset, _ := app.AllianceKeeper.GetAssetByDenom(ctx, denom)
	valTokens := val.TotalTokensWithAsset(asset)
	return types.ConvertNewShareToDecToken(valTokens, val.TotalDelegationSharesWithDenom(denom), d.Shares)
}

// Randomised exploration: after every successful redelegation the clauses of C15 are asserted
func TestHuntFuzzRedelegate(t *testing.T) {
	for seed := int64(1); seed <= 40; seed++ {
		t.Run(fmt.Sprintf("seed%d", seed), func(t *testing.T) { huntFuzz(t, seed) })
	}
}

func huntFuzz(t *testing.T, seed int64) {
	r := rand.New(rand.NewSource(seed))
	app, ctx := createTestContext(t)
	start := time.Date(2024, 1, 1, 0, 0, 0, 0, time.UTC)
	ctx = ctx.WithBlockTime(start).WithBlockHeight(1)
	params := types.DefaultParams()
	params.LastTakeRateClaimTime = start
	params.TakeRateClaimInterval = 5 * time.Minute
	a1 := types.NewAllianceAsset(AllianceDenom, math.LegacyNewDec(2), math.LegacyZeroDec(), math.LegacyNewDec(5), math.LegacyMustNewDecFromStr("0.0013"), start)
	a2 := types.NewAllianceAsset(AllianceDenomTwo, math.LegacyMustNewDecFromStr("0.3"), math.LegacyZeroDec(), math.LegacyNewDec(12), math.LegacyZeroDec(), start)
	a2.RewardChangeRate = math.LegacyMustNewDecFromStr("0.99")
	a2.RewardChangeInterval = 17 * time.Minute
	app.AllianceKeeper.InitGenesis(ctx, &types.GenesisState{Params: params, Assets: []types.AllianceAsset{a1, a2}})
	denoms := []string{AllianceDenom, AllianceDenomTwo}

	delegations, err := app.StakingKeeper.GetAllDelegations(ctx)
	require.NoError(t, err)
	valAddr0, _ := sdk.ValAddressFromBech32(delegations[0].ValidatorAddress)
	nDel := 4
	addrs := test_helpers.AddTestAddrsIncremental(app, ctx, 2+nDel, sdk.NewCoins(
		sdk.NewCoin(AllianceDenom, math.NewInt(1_000_000_000_000)),
		sdk.NewCoin(AllianceDenomTwo, math.NewInt(1_000_000_000_000)),
	))
	pks := test_helpers.CreateTestPubKeys(2)
	vals := []sdk.ValAddress{valAddr0}
	for i := 0; i < 2; i++ {
		va := sdk.ValAddress(addrs[i])
		v := teststaking.NewValidator(t, va, pks[i])
		v.Commission = stakingtypes.NewCommission(math.LegacyZeroDec(), math.LegacyZeroDec(), math.LegacyZeroDec())
		test_helpers.RegisterNewValidator(t, app, ctx, v)
		vals = append(vals, va)
	}
	dels := addrs[2:]
	err = app.BankKeeper.MintCoins(ctx, minttypes.ModuleName, sdk.NewCoins(sdk.NewCoin("stake", math.NewInt(1_000_000_000_000))))
	require.NoError(t, err)

	ms := keeper.MsgServer{Keeper: app.AllianceKeeper}
	moduleAddr := app.AccountKeeper.GetModuleAddress(types.ModuleName)
	unbonding, err := app.StakingKeeper.UnbondingTime(ctx)
	require.NoError(t, err)

	type pend struct {
		del        sdk.AccAddress
		dst        sdk.ValAddress
		denom      string
		completion time.Time
	}
	var pending []pend
	nRedel := 0
	blockRedels := map[string]int{}

	for step := 0; step < 700; step++ {
		op := r.Intn(100)
		del := dels[r.Intn(nDel)]
		denom := denoms[r.Intn(2)]
		vi := r.Intn(3)
		switch {
		case op < 30:
			amt := math.NewInt(1 + r.Int63n(5_000_000))
			if r.Intn(5) == 0 {
				amt = math.NewInt(1 + r.Int63n(50))
			}
			cctx, write := ctx.CacheContext()
			_, err := ms.Delegate(cctx, &types.MsgDelegate{DelegatorAddress: del.String(), ValidatorAddress: vals[vi].String(), Amount: sdk.NewCoin(denom, amt)})
			if err == nil {
				write()
			}
		case op < 45:
			d, found := app.AllianceKeeper.GetDelegation(ctx, del, vals[vi], denom)
			if !found {
				continue
			}
			val, _ := app.AllianceKeeper.GetAllianceValidator(ctx, vals[vi])
			asset, _ := app.AllianceKeeper.GetAssetByDenom(ctx, denom)
			have := types.GetDelegationTokens(d, val, asset).Amount
			if !have.IsPositive() {
				continue
			}
			amt := have
			if r.Intn(3) > 0 {
				amt = math.NewInt(1 + r.Int63n(have.Int64()))
			}
			cctx, write := ctx.CacheContext()
			_, err := ms.Undelegate(cctx, &types.MsgUndelegate{DelegatorAddress: del.String(), ValidatorAddress: vals[vi].String(), Amount: sdk.NewCoin(denom, amt)})
			if err == nil {
				write()
			}
		case op < 80:
			vj := (vi + 1 + r.Intn(2)) % 3
			d, found := app.AllianceKeeper.GetDelegation(ctx, del, vals[vi], denom)
			if !found {
				continue
			}
			val, _ := app.AllianceKeeper.GetAllianceValidator(ctx, vals[vi])
			asset, _ := app.AllianceKeeper.GetAssetByDenom(ctx, denom)
			have := types.GetDelegationTokens(d, val, asset).Amount
			if !have.IsPositive() {
				continue
			}
			amt := have
			if r.Intn(3) > 0 {
				amt = math.NewInt(1 + r.Int63n(have.Int64()))
			}
			// is a hop pending into the source?
			blocked := false
			for _, p := range pending {
				if p.del.Equals(del) && p.dst.Equals(vals[vi]) && p.denom == denom {
					blocked = true
				}
			}
			// K2 (known): same delegator, same destination, different source in one block. Avoid it
			k2key := fmt.Sprintf("%s/%s/%s", del, vals[vj], denom)
			if prev, ok := blockRedels[k2key]; ok && prev != vi {
				continue
			}
			srcBefore := huntPosValue(t, app, ctx, del, vals[vi], denom)
			dstBefore := huntPosValue(t, app, ctx, del, vals[vj], denom)
			custodyBefore := app.BankKeeper.GetBalance(ctx, moduleAddr, denom)

			cctx, write := ctx.CacheContext()
			_, err := ms.Redelegate(cctx, &types.MsgRedelegate{DelegatorAddress: del.String(), ValidatorSrcAddress: vals[vi].String(), ValidatorDstAddress: vals[vj].String(), Amount: sdk.NewCoin(denom, amt)})
			if blocked {
				require.Error(t, err, "step %d: onward hop allowed while entry pending", step)
				continue
			}
			if err != nil {
				continue
			}
			write()
			blockRedels[k2key] = vi
			nRedel++
			assetAfter, _ := app.AllianceKeeper.GetAssetByDenom(ctx, denom)
			require.True(t, asset.TotalTokens.Equal(assetAfter.TotalTokens), "step %d staked total changed", step)
			require.Equal(t, custodyBefore.String(), app.BankKeeper.GetBalance(ctx, moduleAddr, denom).String(), "step %d custody changed", step)
			srcAfter := huntPosValue(t, app, ctx, del, vals[vi], denom)
			dstAfter := huntPosValue(t, app, ctx, del, vals[vj], denom)
			moved := math.LegacyNewDecFromInt(amt)
			tol := math.LegacyMustNewDecFromStr("1.5")
			require.True(t, srcBefore.Sub(srcAfter).Sub(moved).Abs().LT(tol), "step %d seed %d: source fell by %s, requested %s (before %s after %s)", step, seed, srcBefore.Sub(srcAfter), moved, srcBefore, srcAfter)
			require.True(t, dstAfter.Sub(dstBefore).Sub(moved).Abs().LT(tol), "step %d seed %d: destination rose by %s, requested %s (before %s after %s)", step, seed, dstAfter.Sub(dstBefore), moved, dstBefore, dstAfter)
			completion := ctx.BlockTime().Add(unbonding)
			require.True(t, app.AllianceKeeper.HasRedelegation(ctx, del, vals[vj], denom))
			pending = append(pending, pend{del, vals[vj], denom, completion})
		case op < 88:
			cctx, write := ctx.CacheContext()
			_, err := ms.ClaimDelegationRewards(cctx, &types.MsgClaimDelegationRewards{DelegatorAddress: del.String(), ValidatorAddress: vals[vi].String(), Denom: denom})
			if err == nil {
				write()
			}
		default:
			// end of block, next block
			// governance executes in its end blocker, before staking and alliance
			switch r.Intn(8) {
			case 0:
				dn := denoms[r.Intn(2)]
				as, _ := app.AllianceKeeper.GetAssetByDenom(ctx, dn)
				w := math.LegacyNewDecWithPrec(int64(r.Intn(400)), 2)
				_, err := ms.UpdateAlliance(ctx, &types.MsgUpdateAlliance{Authority: app.AllianceKeeper.GetAuthority(), Denom: dn, RewardWeight: w,
					TakeRate: math.LegacyNewDecWithPrec(int64(r.Intn(30)), 4), RewardChangeRate: as.RewardChangeRate, RewardChangeInterval: as.RewardChangeInterval,
					RewardWeightRange: types.RewardWeightRange{Min: math.LegacyZeroDec(), Max: math.LegacyNewDec(5)}})
				require.NoError(t, err)
			case 1:
				sp, _ := app.StakingKeeper.GetParams(ctx)
				sp.UnbondingTime = time.Duration(1+r.Intn(30)) * 24 * time.Hour
				require.NoError(t, app.StakingKeeper.SetParams(ctx, sp))
				unbonding = sp.UnbondingTime
			case 2:
				v, _ := app.StakingKeeper.GetValidator(ctx, vals[1+r.Intn(2)])
				cons, _ := v.GetConsAddr()
				if v.IsJailed() {
					require.NoError(t, app.StakingKeeper.Unjail(ctx, cons))
				} else if v.IsBonded() {
					require.NoError(t, app.StakingKeeper.Jail(ctx, cons))
				}
			}
			_, err := app.StakingKeeper.EndBlocker(ctx)
			require.NoError(t, err)
			require.NoError(t, alliance.EndBlocker(ctx, app.AllianceKeeper))
			dt := time.Duration(1+r.Intn(600)) * time.Second
			if r.Intn(6) == 0 {
				dt = time.Duration(1+r.Intn(10)) * 24 * time.Hour
			}
			// check completion at this end block
			var still []pend
			for _, p := range pending {
				if p.completion.Before(ctx.BlockTime()) {
					continue
				}
				still = append(still, p)
			}
			pending = still
			// entries of delegators: every stored redelegation must be in pending and not be mature
			app.AllianceKeeper.IterateRedelegations(ctx, func(red types.Redelegation, c time.Time) bool {
				require.False(t, c.Before(ctx.BlockTime()), "step %d mature entry survived end block", step)
				return false
			})
			for _, d := range dels {
				for _, v := range vals {
					for _, dn := range denoms {
						want := false
						for _, p := range pending {
							if p.del.Equals(d) && p.dst.Equals(v) && p.denom == dn {
								want = true
							}
						}
						require.Equal(t, want, app.AllianceKeeper.HasRedelegation(ctx, d, v, dn), "step %d restriction state", step)
					}
				}
			}
			ctx = ctx.WithBlockTime(ctx.BlockTime().Add(dt)).WithBlockHeight(ctx.BlockHeight() + 1)
			blockRedels = map[string]int{}
			// rewards
			err = app.BankKeeper.SendCoinsFromModuleToModule(ctx, minttypes.ModuleName, authtypes.FeeCollectorName, sdk.NewCoins(sdk.NewCoin("stake", math.NewInt(1_000_000))))
			require.NoError(t, err)
			var votes []abcitypes.VoteInfo
			total := int64(0)
			for _, va := range vals {
				v, _ := app.StakingKeeper.GetValidator(ctx, va)
				cons, _ := v.GetConsAddr()
				p := v.ConsensusPower(app.StakingKeeper.PowerReduction(ctx)) + 1
				total += p
				votes = append(votes, abcitypes.VoteInfo{Validator: abcitypes.Validator{Address: cons, Power: p}})
			}
			require.NoError(t, app.DistrKeeper.AllocateTokens(ctx, total, votes))
		}
	}
	// genesis round trip of the state the chain produced
	exported := app.AllianceKeeper.ExportGenesis(ctx)
	app2, ctx2 := createTestContext(t)
	ctx2 = ctx2.WithBlockTime(ctx.BlockTime()).WithBlockHeight(ctx.BlockHeight())
	app2.AllianceKeeper.InitGenesis(ctx2, exported)
	exported2 := app2.AllianceKeeper.ExportGenesis(ctx2)
	require.Equal(t, exported.Redelegations, exported2.Redelegations)
	for _, p := range pending {
		require.True(t, app2.AllianceKeeper.HasRedelegation(ctx2, p.del, p.dst, p.denom))
	}
	n31 := func(a *test_helpers.App, c sdk.Context) (n int) {
		for _, v := range vals {
			it := a.AllianceKeeper.IterateRedelegationsBySrcValidator(c, v)
			for ; it.Valid(); it.Next() {
				n++
			}
			it.Close()
		}
		return
	}
	if n31(app, ctx) != n31(app2, ctx2) {
		for _, v := range vals {
			it := app.AllianceKeeper.IterateRedelegationsBySrcValidator(ctx, v)
			for ; it.Valid(); it.Next() {
				key, c, _ := types.ParseRedelegationIndexForRedelegationKey(it.Key())
				it2 := app2.AllianceKeeper.IterateRedelegationsBySrcValidator(ctx2, v)
				found := false
				for ; it2.Valid(); it2.Next() {
					if string(it2.Key()) == string(it.Key()) {
						found = true
					}
				}
				it2.Close()
				if !found {
					t.Logf("index lost on import: src %s completion %s recordkey %x", v, c, key)
					app.AllianceKeeper.IterateRedelegations(ctx, func(red types.Redelegation, cc time.Time) bool {
						if cc.Equal(c) {
							t.Logf("   record with same completion: %+v", red)
						}
						return false
					})
				}
			}
			it.Close()
		}
	}
	require.Equal(t, n31(app, ctx), n31(app2, ctx2))
	ctx2 = ctx2.WithBlockTime(ctx2.BlockTime().Add(40 * 24 * time.Hour))
	app2.AllianceKeeper.CompleteRedelegations(ctx2)
	require.Equal(t, 0, n31(app2, ctx2))
	app2.AllianceKeeper.IterateRedelegations(ctx2, func(red types.Redelegation, c time.Time) bool {
		t.Fatalf("entry survived")
		return false
	})
	t.Logf("seed %d: %d redelegations checked, %d pending at export", seed, nRedel, len(pending))
	require.Greater(t, nRedel, 10)
}
