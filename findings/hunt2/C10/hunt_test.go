package tests_test

import (
	"fmt"
	"math/rand"
	"testing"
	"time"

	"cosmossdk.io/math"
	"github.com/stretchr/testify/require"

	sdk "github.com/cosmos/cosmos-sdk/types"
	slashingkeeper "github.com/cosmos/cosmos-sdk/x/slashing/keeper"
	slashingtypes "github.com/cosmos/cosmos-sdk/x/slashing/types"
	stakingkeeper "github.com/cosmos/cosmos-sdk/x/staking/keeper"
	stakingtypes "github.com/cosmos/cosmos-sdk/x/staking/types"

	test_helpers "github.com/terra-money/alliance/app"
	"github.com/terra-money/alliance/x/alliance"
	"github.com/terra-money/alliance/x/alliance/keeper"
	"github.com/terra-money/alliance/x/alliance/types"
)

// ---------------------------------------------------------------------------------------------------------
// helpers
// ---------------------------------------------------------------------------------------------------------

var huntTol int64 = 2
var huntOps = 13
var huntMaxW = 300

type huntEnv struct {
	t         *testing.T
	app       *test_helpers.App
	ctx       sdk.Context
	bondDenom string
	vals      []sdk.ValAddress
	users     []sdk.AccAddress
	stakingMs stakingtypes.MsgServer
	allianceM types.MsgServer
	log       []string
}

func (e *huntEnv) logf(format string, args ...interface{}) {
	e.log = append(e.log, fmt.Sprintf("[h=%d] ", e.ctx.BlockHeight())+fmt.Sprintf(format, args...))
}

func newHuntEnv(t *testing.T, nVals int, nUsers int) *huntEnv {
	app, ctx := createTestContext(t)
	ctx = ctx.WithBlockTime(time.Unix(1_700_000_000, 0).UTC()).WithBlockHeight(2)
	bondDenom, err := app.StakingKeeper.BondDenom(ctx)
	require.NoError(t, err)
	e := &huntEnv{t: t, app: app, ctx: ctx, bondDenom: bondDenom}
	e.stakingMs = stakingkeeper.NewMsgServerImpl(app.StakingKeeper)
	e.allianceM = keeper.NewMsgServerImpl(app.AllianceKeeper)

	require.NoError(t, app.AllianceKeeper.SetParams(ctx, types.DefaultParams()))

	// community tax zero
	distParams, err := app.DistrKeeper.Params.Get(ctx)
	require.NoError(t, err)
	distParams.CommunityTax = math.LegacyZeroDec()
	require.NoError(t, app.DistrKeeper.Params.Set(ctx, distParams))

	addrs := test_helpers.AddTestAddrsIncremental(app, ctx, nVals+nUsers, sdk.NewCoins(
		sdk.NewCoin(bondDenom, math.NewInt(1_000_000_000_000)),
		sdk.NewCoin(AllianceDenom, math.NewInt(1_000_000_000_000)),
		sdk.NewCoin(AllianceDenomTwo, math.NewInt(1_000_000_000_000)),
		sdk.NewCoin("alliance3", math.NewInt(1_000_000_000_000)),
	))
	pks := test_helpers.CreateTestPubKeys(nVals)

	// the genesis validator
	genVals, err := app.StakingKeeper.GetAllValidators(ctx)
	require.NoError(t, err)
	require.Len(t, genVals, 1)
	e.vals = append(e.vals, getOperator(genVals[0]))

	for i := 0; i < nVals; i++ {
		valAddr := sdk.ValAddress(addrs[i])
		msg, err := stakingtypes.NewMsgCreateValidator(
			valAddr.String(), pks[i], sdk.NewCoin(bondDenom, math.NewInt(int64(2_000_000+i*1_000_000))),
			stakingtypes.Description{Moniker: fmt.Sprintf("v%d", i+1)},
			stakingtypes.NewCommissionRates(math.LegacyZeroDec(), math.LegacyOneDec(), math.LegacyOneDec()),
			math.OneInt(),
		)
		require.NoError(t, err)
		_, err = e.stakingMs.CreateValidator(ctx, msg)
		require.NoError(t, err)
		e.vals = append(e.vals, valAddr)
	}
	e.users = addrs[nVals:]
	return e
}

func (e *huntEnv) authority() string { return e.app.AllianceKeeper.GetAuthority() }

func (e *huntEnv) createAlliance(denom string, weight string) {
	_, err := e.allianceM.CreateAlliance(e.ctx, &types.MsgCreateAlliance{
		Authority:            e.authority(),
		Denom:                denom,
		RewardWeight:         math.LegacyMustNewDecFromStr(weight),
		TakeRate:             math.LegacyZeroDec(),
		RewardChangeRate:     math.LegacyOneDec(),
		RewardChangeInterval: 0,
		RewardWeightRange:    types.RewardWeightRange{Min: math.LegacyZeroDec(), Max: math.LegacyNewDec(100)},
	})
	require.NoError(e.t, err)
}

// endBlock runs the end blockers of x/staking and x/alliance in the app's order (staking ... alliance last)
func (e *huntEnv) endBlock() {
	_, err := e.app.StakingKeeper.EndBlocker(e.ctx)
	require.NoError(e.t, err)
	err = alliance.EndBlocker(e.ctx, e.app.AllianceKeeper)
	require.NoError(e.t, err)
}

func (e *huntEnv) nextBlock(dt time.Duration) {
	e.ctx = e.ctx.WithBlockHeight(e.ctx.BlockHeight() + 1).WithBlockTime(e.ctx.BlockTime().Add(dt))
}

// allocateRewards does what the begin blocker of x/distribution does with the collected fees
func (e *huntEnv) allocateRewards(amount int64) {
	vals, err := e.app.StakingKeeper.GetBondedValidatorsByPower(e.ctx)
	require.NoError(e.t, err)
	for _, v := range vals {
		coins := sdk.NewCoins(sdk.NewCoin(e.bondDenom, math.NewInt(amount)))
		require.NoError(e.t, e.app.BankKeeper.MintCoins(e.ctx, "mint", coins))
		require.NoError(e.t, e.app.BankKeeper.SendCoinsFromModuleToModule(e.ctx, "mint", "distribution", coins))
		require.NoError(e.t, e.app.DistrKeeper.AllocateTokensToValidator(e.ctx, v, sdk.NewDecCoinsFromCoins(coins...)))
	}
}

// c10Violations states the property: every bonded validator carries alliance minted stake equal to
// sum_{started assets} weight * native bonded * valShares / bondedShares (+- 2 units)
func (e *huntEnv) c10Violations() []string {
	var out []string
	app, ctx := e.app, e.ctx
	moduleAddr := app.AccountKeeper.GetModuleAddress(types.ModuleName)
	allVals, err := app.StakingKeeper.GetAllValidators(ctx)
	require.NoError(e.t, err)
	totalBonded, err := app.StakingKeeper.TotalBondedTokens(ctx)
	require.NoError(e.t, err)

	moduleTokens := map[string]math.LegacyDec{}
	moduleBondedTotal := math.LegacyZeroDec()
	var bonded []stakingtypes.Validator
	for _, v := range allVals {
		if !v.IsBonded() {
			continue
		}
		bonded = append(bonded, v)
		del, err := app.StakingKeeper.GetDelegation(ctx, moduleAddr, getOperator(v))
		tokens := math.LegacyZeroDec()
		if err == nil {
			tokens = v.TokensFromShares(del.Shares)
		}
		moduleTokens[v.OperatorAddress] = tokens
		moduleBondedTotal = moduleBondedTotal.Add(tokens)
	}
	native := math.LegacyNewDecFromInt(totalBonded).Sub(moduleBondedTotal)

	assets := app.AllianceKeeper.GetAllAssets(ctx)
	expected := map[string]math.LegacyDec{}
	for _, v := range bonded {
		expected[v.OperatorAddress] = math.LegacyZeroDec()
	}
	expectedTotal := math.LegacyZeroDec()
	for _, a := range assets {
		if !a.RewardsStarted(ctx.BlockTime()) {
			continue
		}
		bondedShares := math.LegacyZeroDec()
		shares := map[string]math.LegacyDec{}
		for _, v := range bonded {
			info, found := app.AllianceKeeper.GetAllianceValidatorInfo(ctx, getOperator(v))
			if !found {
				continue
			}
			s := sdk.DecCoins(info.ValidatorShares).AmountOf(a.Denom)
			shares[v.OperatorAddress] = s
			bondedShares = bondedShares.Add(s)
		}
		if !bondedShares.IsPositive() {
			continue
		}
		target := a.RewardWeight.Mul(native)
		expectedTotal = expectedTotal.Add(target)
		for _, v := range bonded {
			s, ok := shares[v.OperatorAddress]
			if !ok || !s.IsPositive() {
				continue
			}
			expected[v.OperatorAddress] = expected[v.OperatorAddress].Add(target.Mul(s).Quo(bondedShares))
		}
	}
	tol := math.LegacyNewDec(huntTol)
	for _, v := range bonded {
		diff := moduleTokens[v.OperatorAddress].Sub(expected[v.OperatorAddress]).Abs()
		if diff.GT(tol) {
			out = append(out, fmt.Sprintf("validator %s (%s): alliance stake %s expected %s", v.GetMoniker(), v.OperatorAddress, moduleTokens[v.OperatorAddress], expected[v.OperatorAddress]))
		}
	}
	if moduleBondedTotal.Sub(expectedTotal).Abs().GT(tol.MulInt64(int64(len(bonded) + 1))) {
		out = append(out, fmt.Sprintf("total alliance stake %s expected %s (native %s)", moduleBondedTotal, expectedTotal, native))
	}
	return out
}

// knownState reports states that are produced by already known defects (K8: validator removed while it carries
// alliance delegations; share sums diverging)
func (e *huntEnv) knownState() string {
	k8 := ""
	_ = e.app.AllianceKeeper.IterateDelegations(e.ctx, func(d types.Delegation) bool {
		valAddr, _ := sdk.ValAddressFromBech32(d.ValidatorAddress)
		if _, err := e.app.StakingKeeper.GetValidator(e.ctx, valAddr); err != nil {
			k8 = "K8: delegation on removed validator " + d.ValidatorAddress
			return true
		}
		return false
	})
	if k8 != "" {
		return k8
	}
	for _, a := range e.app.AllianceKeeper.GetAllAssets(e.ctx) {
		sum := math.LegacyZeroDec()
		_ = e.app.AllianceKeeper.IterateAllianceValidatorInfo(e.ctx, func(valAddr sdk.ValAddress, info types.AllianceValidatorInfo) bool {
			sum = sum.Add(sdk.DecCoins(info.ValidatorShares).AmountOf(a.Denom))
			return false
		})
		if sum.Sub(a.TotalValidatorShares).Abs().GT(math.LegacyNewDecWithPrec(1, 6)) {
			return fmt.Sprintf("share divergence %s: sum %s total %s", a.Denom, sum, a.TotalValidatorShares)
		}
	}
	return ""
}

// ---------------------------------------------------------------------------------------------------------
// randomized exploration: random sequences of real messages (x/alliance, x/staking, x/slashing msg servers), slashes as
// x/slashing issues them, MaxValidators changes, weight / take rate / decay updates, warm-up assets, asset deletion and
// re-creation, 22 day time jumps, reward allocation; after every block (x/staking end blocker, then x/alliance end
// blocker) the C10 clause is asserted with a tolerance of 2 units (sum of weights < 1 so that K19 stays below it).
// States produced by K8 / K16 are recognised and end the run. The test PASSES: no new violation was found.
// ---------------------------------------------------------------------------------------------------------

func (e *huntEnv) randomOp(r *rand.Rand) {
	ctx := e.ctx
	denoms := []string{AllianceDenom, AllianceDenomTwo, "alliance3"}
	user := e.users[1+r.Intn(len(e.users)-1)]
	val := e.vals[r.Intn(len(e.vals))]
	val2 := e.vals[r.Intn(len(e.vals))]
	denom := denoms[r.Intn(len(denoms))]
	amt := math.NewInt(int64(1 + r.Intn(5_000_000)))
	switch op := r.Intn(huntOps); op {
	case 0, 1, 2:
		_, err := e.allianceM.Delegate(ctx, &types.MsgDelegate{DelegatorAddress: user.String(), ValidatorAddress: val.String(), Amount: sdk.NewCoin(denom, amt)})
		e.logf("alliance delegate %s %s%s -> %s err=%v", user, amt, denom, val, err)
	case 3:
		_, err := e.allianceM.Undelegate(ctx, &types.MsgUndelegate{DelegatorAddress: user.String(), ValidatorAddress: val.String(), Amount: sdk.NewCoin(denom, amt)})
		e.logf("alliance undelegate %s %s%s -> %s err=%v", user, amt, denom, val, err)
	case 4:
		_, err := e.allianceM.Redelegate(ctx, &types.MsgRedelegate{DelegatorAddress: user.String(), ValidatorSrcAddress: val.String(), ValidatorDstAddress: val2.String(), Amount: sdk.NewCoin(denom, amt)})
		e.logf("alliance redelegate %s %s%s %s -> %s err=%v", user, amt, denom, val, val2, err)
	case 5, 6:
		_, err := e.stakingMs.Delegate(ctx, stakingtypes.NewMsgDelegate(user.String(), val.String(), sdk.NewCoin(e.bondDenom, amt)))
		e.logf("native delegate %s %s -> %s err=%v", user, amt, val, err)
	case 7:
		_, err := e.stakingMs.Undelegate(ctx, stakingtypes.NewMsgUndelegate(user.String(), val.String(), sdk.NewCoin(e.bondDenom, amt)))
		e.logf("native undelegate %s %s -> %s err=%v", user, amt, val, err)
	case 8:
		_, err := e.stakingMs.BeginRedelegate(ctx, stakingtypes.NewMsgBeginRedelegate(user.String(), val.String(), val2.String(), sdk.NewCoin(e.bondDenom, amt)))
		e.logf("native redelegate %s %s %s -> %s err=%v", user, amt, val, val2, err)
	case 9:
		// downtime slash + jail like x/slashing does in its begin blocker
		v, err := e.app.StakingKeeper.GetValidator(ctx, val)
		if err != nil || !v.IsBonded() || v.IsJailed() {
			return
		}
		consAddr, _ := v.GetConsAddr()
		power := v.GetConsensusPower(e.app.StakingKeeper.PowerReduction(ctx))
		err = e.app.SlashingKeeper.Slash(ctx, consAddr, math.LegacyMustNewDecFromStr("0.01"), power, ctx.BlockHeight()-1)
		e.logf("slash %s err=%v", val, err)
		err = e.app.SlashingKeeper.Jail(ctx, consAddr)
		e.logf("jail %s err=%v", val, err)
	case 10:
		ms := slashingkeeper.NewMsgServerImpl(e.app.SlashingKeeper)
		_, err := ms.Unjail(ctx, slashingtypes.NewMsgUnjail(val.String()))
		e.logf("unjail %s err=%v", val, err)
	case 11:
		params, _ := e.app.StakingKeeper.GetParams(ctx)
		params.MaxValidators = uint32(2 + r.Intn(len(e.vals)))
		sm := stakingkeeper.NewMsgServerImpl(e.app.StakingKeeper)
		_, err := sm.UpdateParams(ctx, &stakingtypes.MsgUpdateParams{Authority: e.app.StakingKeeper.GetAuthority(), Params: params})
		e.logf("max validators %d err=%v", params.MaxValidators, err)
	case 12:
		asset, found := e.app.AllianceKeeper.GetAssetByDenom(ctx, denom)
		if !found {
			return
		}
		w := math.LegacyNewDecWithPrec(int64(r.Intn(huntMaxW)), 2)
		_, err := e.allianceM.UpdateAlliance(ctx, &types.MsgUpdateAlliance{
			Authority: e.authority(), Denom: denom, RewardWeight: w, TakeRate: asset.TakeRate,
			RewardChangeRate: asset.RewardChangeRate, RewardChangeInterval: asset.RewardChangeInterval, RewardWeightRange: asset.RewardWeightRange,
		})
		e.logf("update alliance %s weight %s err=%v", denom, w, err)
	case 13:
		// full alliance exit of a position
		res, err := keeper.NewQueryServerImpl(e.app.AllianceKeeper).AllianceDelegation(ctx, &types.QueryAllianceDelegationRequest{DelegatorAddr: user.String(), ValidatorAddr: val.String(), Denom: denom})
		if err != nil {
			return
		}
		_, err = e.allianceM.Undelegate(ctx, &types.MsgUndelegate{DelegatorAddress: user.String(), ValidatorAddress: val.String(), Amount: res.Delegation.Balance})
		e.logf("alliance full undelegate %s %s -> %s err=%v", user, res.Delegation.Balance, val, err)
	case 14:
		// full native exit of a position
		del, err := e.app.StakingKeeper.GetDelegation(ctx, user, val)
		if err != nil {
			return
		}
		v, _ := e.app.StakingKeeper.GetValidator(ctx, val)
		amt := v.TokensFromShares(del.Shares).TruncateInt()
		_, err = e.stakingMs.Undelegate(ctx, stakingtypes.NewMsgUndelegate(user.String(), val.String(), sdk.NewCoin(e.bondDenom, amt)))
		e.logf("native full undelegate %s %s -> %s err=%v", user, amt, val, err)
	case 15:
		// operator leaves
		if val.Equals(e.vals[0]) {
			return
		}
		del, err := e.app.StakingKeeper.GetDelegation(ctx, sdk.AccAddress(val), val)
		if err != nil {
			return
		}
		v, _ := e.app.StakingKeeper.GetValidator(ctx, val)
		amt := v.TokensFromShares(del.Shares).TruncateInt()
		_, err = e.stakingMs.Undelegate(ctx, stakingtypes.NewMsgUndelegate(sdk.AccAddress(val).String(), val.String(), sdk.NewCoin(e.bondDenom, amt)))
		e.logf("operator full undelegate %s -> %s err=%v", amt, val, err)
	case 16:
		// double sign evidence for a past height
		v, err := e.app.StakingKeeper.GetValidator(ctx, val)
		if err != nil || v.IsUnbonded() || v.IsJailed() {
			return
		}
		consAddr, _ := v.GetConsAddr()
		power := v.GetConsensusPower(e.app.StakingKeeper.PowerReduction(ctx))
		h := ctx.BlockHeight() - int64(1+r.Intn(10))
		err = e.app.SlashingKeeper.SlashWithInfractionReason(ctx, consAddr, math.LegacyMustNewDecFromStr("0.05"), power, h, stakingtypes.Infraction_INFRACTION_DOUBLE_SIGN)
		e.logf("double sign slash %s infraction height %d err=%v", val, h, err)
		err = e.app.SlashingKeeper.Jail(ctx, consAddr)
		e.logf("jail %s err=%v", val, err)
	case 17:
		e.ctx = e.ctx.WithBlockTime(e.ctx.BlockTime().Add(22 * 24 * time.Hour))
		e.logf("time jump 22 days")
	case 18:
		_, err := e.allianceM.DeleteAlliance(ctx, &types.MsgDeleteAlliance{Authority: e.authority(), Denom: denom})
		e.logf("delete alliance %s err=%v", denom, err)
		if err == nil {
			e.createAlliance(denom, "0.25")
			e.logf("re-created alliance %s", denom)
		}
	case 19:
		asset, found := e.app.AllianceKeeper.GetAssetByDenom(ctx, denom)
		if !found {
			return
		}
		tr := math.LegacyNewDecWithPrec(int64(r.Intn(50)), 3)
		rate := math.LegacyNewDecWithPrec(int64(900+r.Intn(101)), 3)
		interval := time.Duration(r.Intn(4)) * 7 * time.Second
		_, err := e.allianceM.UpdateAlliance(ctx, &types.MsgUpdateAlliance{
			Authority: e.authority(), Denom: denom, RewardWeight: asset.RewardWeight, TakeRate: tr,
			RewardChangeRate: rate, RewardChangeInterval: interval, RewardWeightRange: asset.RewardWeightRange,
		})
		e.logf("update alliance %s take rate %s change rate %s interval %s err=%v", denom, tr, rate, interval, err)
	case 20:
		// a user becomes a validator
		if len(e.vals) >= 8 {
			return
		}
		pk := test_helpers.CreateTestPubKeys(20)[10+len(e.vals)]
		msg, _ := stakingtypes.NewMsgCreateValidator(sdk.ValAddress(user).String(), pk, sdk.NewCoin(e.bondDenom, amt.AddRaw(1_000_000)),
			stakingtypes.Description{Moniker: "late"}, stakingtypes.NewCommissionRates(math.LegacyZeroDec(), math.LegacyOneDec(), math.LegacyOneDec()), math.OneInt())
		_, err := e.stakingMs.CreateValidator(ctx, msg)
		e.logf("create validator %s err=%v", sdk.ValAddress(user), err)
		if err == nil {
			e.vals = append(e.vals, sdk.ValAddress(user))
			_, err = e.stakingMs.Delegate(ctx, stakingtypes.NewMsgDelegate(e.users[0].String(), sdk.ValAddress(user).String(), sdk.NewCoin(e.bondDenom, math.NewInt(1_200_000))))
			require.NoError(e.t, err)
		}
	case 21:
		// cancel a pending native unbonding
		ubds, err := e.app.StakingKeeper.GetUnbondingDelegations(ctx, user, 10)
		if err != nil || len(ubds) == 0 || len(ubds[0].Entries) == 0 {
			return
		}
		en := ubds[0].Entries[0]
		_, err = e.stakingMs.CancelUnbondingDelegation(ctx, stakingtypes.NewMsgCancelUnbondingDelegation(user.String(), ubds[0].ValidatorAddress, en.CreationHeight, sdk.NewCoin(e.bondDenom, en.Balance)))
		e.logf("cancel unbonding %s %s err=%v", user, en.Balance, err)
	}
}

func TestHuntExploreC10(t *testing.T) {
	huntTol = 2
	huntMaxW = 30
	huntOps = 22
	for seed := int64(1); seed <= 40; seed++ {
		seed := seed
		t.Run(fmt.Sprintf("seed%d", seed), func(t *testing.T) {
			r := rand.New(rand.NewSource(seed))
			defer func() {
				if rec := recover(); rec != nil {
					t.Logf("PANIC: %v", rec)
					t.Fail()
				}
			}()
			e := newHuntEnv(t, 4, 5)
			for _, v := range e.vals {
				_, err := e.stakingMs.Delegate(e.ctx, stakingtypes.NewMsgDelegate(e.users[0].String(), v.String(), sdk.NewCoin(e.bondDenom, math.NewInt(1_500_000))))
				require.NoError(t, err)
			}
			e.createAlliance(AllianceDenom, "0.3")
			e.createAlliance(AllianceDenomTwo, "0.2")
			e.endBlock()
			e.nextBlock(5 * time.Second)
			// third asset with a warm-up
			p := e.app.AllianceKeeper.GetParams(e.ctx)
			p.RewardDelayTime = 200 * time.Second
			p.TakeRateClaimInterval = 11 * time.Second
			_, err := e.allianceM.UpdateParams(e.ctx, &types.MsgUpdateParams{Authority: e.authority(), Params: p})
			require.NoError(t, err)
			e.createAlliance("alliance3", "0.1")
			for b := 0; b < 120; b++ {
				e.allocateRewards(int64(1 + r.Intn(100000)))
				n := r.Intn(4)
				for i := 0; i < n; i++ {
					e.randomOp(r)
				}
				e.endBlock()
				if ks := e.knownState(); ks != "" {
					t.Logf("KNOWN at h=%d: %s", e.ctx.BlockHeight(), ks)
					return
				}
				if v := e.c10Violations(); len(v) > 0 {
					for _, l := range e.log {
						t.Log(l)
					}
					for _, l := range v {
						t.Log("VIOLATION: " + l)
					}
					t.FailNow()
				}
				e.nextBlock(5 * time.Second)
			}
		})
	}
}
