package tests_test

import (
	"bytes"
	"encoding/hex"
	"fmt"
	"testing"
	"time"

	"cosmossdk.io/math"

	test_helpers "github.com/terra-money/alliance/app"
	"github.com/terra-money/alliance/x/alliance"
	"github.com/terra-money/alliance/x/alliance/keeper"
	"github.com/terra-money/alliance/x/alliance/types"

	"cosmossdk.io/log"
	abci "github.com/cometbft/cometbft/abci/types"
	dbm "github.com/cosmos/cosmos-db"
	simtestutil "github.com/cosmos/cosmos-sdk/testutil/sims"
	sdk "github.com/cosmos/cosmos-sdk/types"
	banktypes "github.com/cosmos/cosmos-sdk/x/bank/types"
	stakingkeeper "github.com/cosmos/cosmos-sdk/x/staking/keeper"
	minttypes "github.com/cosmos/cosmos-sdk/x/mint/types"
	teststaking "github.com/cosmos/cosmos-sdk/x/staking/testutil"
	stakingtypes "github.com/cosmos/cosmos-sdk/x/staking/types"
	"github.com/stretchr/testify/require"
)

type huntEnv struct {
	app   *test_helpers.App
	vals  []sdk.ValAddress
	users []sdk.AccAddress
}

func huntDumpStore(app *test_helpers.App, ctx sdk.Context) map[string]string {
	store := app.AllianceKeeper.StoreService().OpenKVStore(ctx)
	iter, err := store.Iterator(nil, nil)
	if err != nil {
		panic(err)
	}
	defer iter.Close()
	res := map[string]string{}
	for ; iter.Valid(); iter.Next() {
		res[hex.EncodeToString(iter.Key())] = hex.EncodeToString(iter.Value())
	}
	return res
}

// huntReimport exports the module state, wipes the module store in a branch of the context and imports the
// (JSON round-tripped) export into it.
func huntReimport(t *testing.T, app *test_helpers.App, ctx sdk.Context) (sdk.Context, []byte) {
	t.Helper()
	cdc := app.AppCodec()
	exported := app.AllianceKeeper.ExportGenesis(ctx)
	bz := cdc.MustMarshalJSON(exported)
	require.NoError(t, alliance.ValidateGenesis(exported))

	branch, _ := ctx.CacheContext()
	store := app.AllianceKeeper.StoreService().OpenKVStore(branch)
	iter, err := store.Iterator(nil, nil)
	require.NoError(t, err)
	var keys [][]byte
	for ; iter.Valid(); iter.Next() {
		keys = append(keys, append([]byte{}, iter.Key()...))
	}
	iter.Close()
	for _, k := range keys {
		require.NoError(t, store.Delete(k))
	}
	var gs types.GenesisState
	cdc.MustUnmarshalJSON(bz, &gs)
	app.AllianceKeeper.InitGenesis(branch, &gs)
	return branch, bz
}

func huntDiffStores(a, b map[string]string) []string {
	var out []string
	for k, v := range a {
		if w, ok := b[k]; !ok {
			out = append(out, "only in original: "+k)
		} else if v != w {
			out = append(out, "value differs: "+k+"\n   orig="+v+"\n   imp ="+w)
		}
	}
	for k := range b {
		if _, ok := a[k]; !ok {
			out = append(out, "only in imported: "+k)
		}
	}
	return out
}

func huntSetup(t *testing.T) (huntEnv, sdk.Context) {
	app, ctx := createTestContext(t)
	start := time.Date(2026, 1, 1, 0, 0, 0, 0, time.UTC)
	ctx = ctx.WithBlockTime(start).WithBlockHeight(10)
	ms := keeper.NewMsgServerImpl(app.AllianceKeeper)
	_, err := ms.UpdateParams(ctx, &types.MsgUpdateParams{
		Authority: app.AllianceKeeper.GetAuthority(),
		Params: types.Params{
			RewardDelayTime:       time.Hour,
			TakeRateClaimInterval: time.Minute * 5,
			LastTakeRateClaimTime: start,
		},
	})
	require.NoError(t, err)

	distParams, err := app.DistrKeeper.Params.Get(ctx)
	require.NoError(t, err)
	distParams.CommunityTax = math.LegacyZeroDec()
	require.NoError(t, app.DistrKeeper.Params.Set(ctx, distParams))

	addrs := test_helpers.AddTestAddrsIncremental(app, ctx, 6, sdk.NewCoins(
		sdk.NewCoin(AllianceDenom, math.NewInt(100_000_000)),
		sdk.NewCoin(AllianceDenomTwo, math.NewInt(100_000_000)),
		sdk.NewCoin("alliance3", math.NewInt(100_000_000)),
	))
	pks := test_helpers.CreateTestPubKeys(3)
	dels, err := app.StakingKeeper.GetAllDelegations(ctx)
	require.NoError(t, err)
	val0, err := sdk.ValAddressFromBech32(dels[0].ValidatorAddress)
	require.NoError(t, err)
	vals := []sdk.ValAddress{val0}
	for i := 0; i < 2; i++ {
		va := sdk.ValAddress(addrs[i])
		v := teststaking.NewValidator(t, va, pks[i])
		v.Commission = stakingtypes.Commission{CommissionRates: stakingtypes.CommissionRates{Rate: math.LegacyZeroDec(), MaxRate: math.LegacyZeroDec(), MaxChangeRate: math.LegacyZeroDec()}, UpdateTime: start}
		test_helpers.RegisterNewValidator(t, app, ctx, v)
		vals = append(vals, va)
	}
	return huntEnv{app: app, vals: vals, users: addrs[2:]}, ctx
}

func huntNextBlock(t *testing.T, e huntEnv, ctx sdk.Context, d time.Duration) sdk.Context {
	t.Helper()
	ctx = ctx.WithBlockTime(ctx.BlockTime().Add(d)).WithBlockHeight(ctx.BlockHeight() + 1)
	// rewards for the block: fund every validator's module delegation through x/distribution
	_, err := e.app.StakingKeeper.EndBlocker(ctx)
	require.NoError(t, err)
	require.NoError(t, alliance.EndBlocker(ctx, e.app.AllianceKeeper))
	return ctx
}

func huntFundRewards(t *testing.T, e huntEnv, ctx sdk.Context, amt int64) {
	t.Helper()
	for _, va := range e.vals {
		val, err := e.app.StakingKeeper.GetValidator(ctx, va)
		require.NoError(t, err)
		if val.GetTokens().IsZero() {
			continue
		}
		coins := sdk.NewDecCoins(sdk.NewDecCoin("stake", math.NewInt(amt)))
		require.NoError(t, e.app.BankKeeper.MintCoins(ctx, minttypes.ModuleName, sdk.NewCoins(sdk.NewCoin("stake", math.NewInt(amt)))))
		require.NoError(t, e.app.BankKeeper.SendCoinsFromModuleToModule(ctx, minttypes.ModuleName, "distribution", sdk.NewCoins(sdk.NewCoin("stake", math.NewInt(amt)))))
		require.NoError(t, e.app.DistrKeeper.AllocateTokensToValidator(ctx, val, coins))
	}
}

func huntBuildState(t *testing.T) (huntEnv, sdk.Context) {
	e, ctx := huntSetup(t)
	app := e.app
	ms := keeper.NewMsgServerImpl(app.AllianceKeeper)
	auth := app.AllianceKeeper.GetAuthority()
	mk := func(denom string, w string, take string, rate string, interval time.Duration) {
		_, err := ms.CreateAlliance(ctx, &types.MsgCreateAlliance{
			Authority: auth, Denom: denom,
			RewardWeight:         math.LegacyMustNewDecFromStr(w),
			RewardWeightRange:    types.RewardWeightRange{Min: math.LegacyZeroDec(), Max: math.LegacyNewDec(10)},
			TakeRate:             math.LegacyMustNewDecFromStr(take),
			RewardChangeRate:     math.LegacyMustNewDecFromStr(rate),
			RewardChangeInterval: interval,
		})
		require.NoError(t, err)
	}
	mk(AllianceDenom, "0.3", "0.0001", "1", 0)
	mk(AllianceDenomTwo, "0.5", "0", "0.99", time.Hour*3)

	del := func(c sdk.Context, u int, v int, denom string, amt int64) error {
		_, err := ms.Delegate(c, &types.MsgDelegate{DelegatorAddress: e.users[u].String(), ValidatorAddress: e.vals[v].String(), Amount: sdk.NewCoin(denom, math.NewInt(amt))})
		return err
	}
	redel := func(c sdk.Context, u int, s, d int, denom string, amt int64) error {
		_, err := ms.Redelegate(c, &types.MsgRedelegate{DelegatorAddress: e.users[u].String(), ValidatorSrcAddress: e.vals[s].String(), ValidatorDstAddress: e.vals[d].String(), Amount: sdk.NewCoin(denom, math.NewInt(amt))})
		return err
	}
	undel := func(c sdk.Context, u int, v int, denom string, amt int64) error {
		_, err := ms.Undelegate(c, &types.MsgUndelegate{DelegatorAddress: e.users[u].String(), ValidatorAddress: e.vals[v].String(), Amount: sdk.NewCoin(denom, math.NewInt(amt))})
		return err
	}

	require.NoError(t, del(ctx, 0, 0, AllianceDenom, 10_000_000))
	require.NoError(t, del(ctx, 0, 1, AllianceDenom, 7_000_000))
	require.NoError(t, del(ctx, 1, 1, AllianceDenom, 5_000_000))
	require.NoError(t, del(ctx, 1, 2, AllianceDenomTwo, 9_000_000))
	require.NoError(t, del(ctx, 2, 0, AllianceDenomTwo, 3_000_000))
	require.NoError(t, del(ctx, 2, 1, AllianceDenomTwo, 3_333_333))
	ctx = huntNextBlock(t, e, ctx, time.Minute)
	// after warm up
	ctx = huntNextBlock(t, e, ctx, time.Hour)
	ctx = huntNextBlock(t, e, ctx, time.Minute)
	huntFundRewards(t, e, ctx, 1_000_000)
	ctx = huntNextBlock(t, e, ctx, time.Minute*6)
	mk("alliance3", "1", "0.01", "1", 0)
	require.NoError(t, del(ctx, 3, 2, "alliance3", 4_000_000))
	require.NoError(t, redel(ctx, 0, 0, 1, AllianceDenom, 2_000_000))
	require.NoError(t, redel(ctx, 2, 0, 2, AllianceDenomTwo, 1_000_000))
	require.NoError(t, undel(ctx, 1, 1, AllianceDenom, 1_000_000))
	require.NoError(t, undel(ctx, 1, 2, AllianceDenomTwo, 1_234_567))
	ctx = huntNextBlock(t, e, ctx, time.Minute*6)
	huntFundRewards(t, e, ctx, 777_777)
	// weight change -> snapshots
	_, err := ms.UpdateAlliance(ctx, &types.MsgUpdateAlliance{Authority: auth, Denom: AllianceDenom,
		RewardWeight: math.LegacyMustNewDecFromStr("0.4"), TakeRate: math.LegacyMustNewDecFromStr("0.0002"),
		RewardChangeRate: math.LegacyMustNewDecFromStr("1.01"), RewardChangeInterval: time.Hour,
		RewardWeightRange: types.RewardWeightRange{Min: math.LegacyMustNewDecFromStr("0.1"), Max: math.LegacyNewDec(3)}})
	require.NoError(t, err)
	ctx = huntNextBlock(t, e, ctx, time.Minute*6)
	require.NoError(t, undel(ctx, 1, 1, AllianceDenom, 500_000))
	require.NoError(t, undel(ctx, 1, 1, AllianceDenom, 250_000))
	require.NoError(t, redel(ctx, 1, 1, 0, AllianceDenom, 300_000))
	// slash validator 1 through x/slashing
	val1, err := app.StakingKeeper.GetValidator(ctx, e.vals[1])
	require.NoError(t, err)
	cons, _ := val1.GetConsAddr()
	require.NoError(t, app.SlashingKeeper.Slash(ctx, cons, math.LegacyMustNewDecFromStr("0.05"), val1.GetConsensusPower(app.StakingKeeper.PowerReduction(ctx)), ctx.BlockHeight()-1))
	ctx = huntNextBlock(t, e, ctx, time.Hour*4)
	huntFundRewards(t, e, ctx, 555_555)
	ctx = huntNextBlock(t, e, ctx, time.Minute*7)
	_, err = ms.ClaimDelegationRewards(ctx, &types.MsgClaimDelegationRewards{DelegatorAddress: e.users[0].String(), ValidatorAddress: e.vals[1].String(), Denom: AllianceDenom})
	require.NoError(t, err)
	// alliance3 is emptied and deleted while its unbonding is pending
	require.NoError(t, undel(ctx, 3, 2, "alliance3", 1_000_000))
	ctx = huntNextBlock(t, e, ctx, time.Minute*7)
	huntFundRewards(t, e, ctx, 123_456)
	ctx = huntNextBlock(t, e, ctx, time.Minute*7)
	return e, ctx
}

type huntTrace []string

func (h *huntTrace) add(f string, a ...interface{}) { *h = append(*h, fmt.Sprintf(f, a...)) }

// huntRun runs a fixed sequence of operations and blocks and records everything observable
func huntRun(t *testing.T, e huntEnv, ctx sdk.Context) huntTrace {
	var tr huntTrace
	app := e.app
	ms := keeper.NewMsgServerImpl(app.AllianceKeeper)
	qs := keeper.NewQueryServerImpl(app.AllianceKeeper)
	auth := app.AllianceKeeper.GetAuthority()
	denoms := []string{AllianceDenom, AllianceDenomTwo, "alliance3"}
	snap := func(label string) {
		for _, u := range e.users {
			tr.add("%s bal %s = %s", label, u, app.BankKeeper.GetAllBalances(ctx, u))
			r, err := qs.AllianceUnbondingsByDelegator(ctx, &types.QueryAllianceUnbondingsByDelegatorRequest{DelegatorAddr: u.String()})
			tr.add("%s unb %s = %v %v", label, u, r, err)
			r2, err := qs.AllianceRedelegationsByDelegator(ctx, &types.QueryAllianceRedelegationsByDelegatorRequest{DelegatorAddr: u.String()})
			tr.add("%s red %s = %v %v", label, u, r2, err)
			r3, err := qs.AlliancesDelegation(ctx, &types.QueryAlliancesDelegationsRequest{DelegatorAddr: u.String()})
			tr.add("%s dels %s = %v %v", label, u, r3, err)
			for _, v := range e.vals {
				for _, d := range denoms {
					r4, err := qs.AllianceDelegationRewards(ctx, &types.QueryAllianceDelegationRewardsRequest{DelegatorAddr: u.String(), ValidatorAddr: v.String(), Denom: d})
					tr.add("%s rew %s %s %s = %v %v", label, u, v, d, r4, err)
					r5, err := qs.AllianceUnbondings(ctx, &types.QueryAllianceUnbondingsRequest{DelegatorAddr: u.String(), ValidatorAddr: v.String(), Denom: d})
					tr.add("%s unb3 %s %s %s = %v %v", label, u, v, d, r5, err)
				}
			}
		}
		r, err := qs.AllAllianceValidators(ctx, &types.QueryAllAllianceValidatorsRequest{})
		tr.add("%s vals = %v %v", label, r, err)
		r2, err := qs.Alliances(ctx, &types.QueryAlliancesRequest{})
		tr.add("%s assets = %v %v", label, r2, err)
		for _, v := range e.vals {
			sv, _ := app.StakingKeeper.GetValidator(ctx, v)
			tr.add("%s staking val %s tokens=%s", label, v, sv.Tokens)
		}
		tr.add("%s export = %s", label, string(app.AppCodec().MustMarshalJSON(app.AllianceKeeper.ExportGenesis(ctx))))
		tr.add("%s module bal = %s", label, app.BankKeeper.GetAllBalances(ctx, app.AccountKeeper.GetModuleAddress(types.ModuleName)))
		tr.add("%s pool bal = %s", label, app.BankKeeper.GetAllBalances(ctx, app.AccountKeeper.GetModuleAddress(types.RewardsPoolName)))
	}
	snap("t0")
	ctx = huntNextBlock(t, e, ctx, time.Minute*6)
	snap("t1")
	// slash validators 0 and 2 and 1
	for i, f := range []string{"0.1", "0.02", "0.5"} {
		v, err := app.StakingKeeper.GetValidator(ctx, e.vals[i])
		require.NoError(t, err)
		cons, _ := v.GetConsAddr()
		err = app.SlashingKeeper.Slash(ctx, cons, math.LegacyMustNewDecFromStr(f), v.GetConsensusPower(app.StakingKeeper.PowerReduction(ctx)), ctx.BlockHeight()-1)
		tr.add("slash %d err=%v", i, err)
	}
	snap("t2")
	ctx = huntNextBlock(t, e, ctx, time.Minute*6)
	huntFundRewards(t, e, ctx, 999_999)
	for ui, u := range e.users {
		for vi, v := range e.vals {
			for _, d := range denoms {
				_, err := ms.ClaimDelegationRewards(ctx, &types.MsgClaimDelegationRewards{DelegatorAddress: u.String(), ValidatorAddress: v.String(), Denom: d})
				tr.add("claim %d %d %s err=%v", ui, vi, d, err)
				_, err = ms.Redelegate(ctx, &types.MsgRedelegate{DelegatorAddress: u.String(), ValidatorSrcAddress: v.String(), ValidatorDstAddress: e.vals[(vi+1)%3].String(), Amount: sdk.NewCoin(d, math.NewInt(100_000))})
				tr.add("redel %d %d %s err=%v", ui, vi, d, err)
				_, err = ms.Undelegate(ctx, &types.MsgUndelegate{DelegatorAddress: u.String(), ValidatorAddress: v.String(), Amount: sdk.NewCoin(d, math.NewInt(50_000))})
				tr.add("undel %d %d %s err=%v", ui, vi, d, err)
				_, err = ms.Delegate(ctx, &types.MsgDelegate{DelegatorAddress: u.String(), ValidatorAddress: v.String(), Amount: sdk.NewCoin(d, math.NewInt(70_000))})
				tr.add("del %d %d %s err=%v", ui, vi, d, err)
			}
		}
	}
	snap("t3")
	_, err := ms.DeleteAlliance(ctx, &types.MsgDeleteAlliance{Authority: auth, Denom: "alliance3"})
	tr.add("delete alliance3 err=%v", err)
	ctx = huntNextBlock(t, e, ctx, time.Hour*5)
	snap("t4")
	ut, _ := app.StakingKeeper.UnbondingTime(ctx)
	ctx = huntNextBlock(t, e, ctx, ut-time.Hour*5-time.Minute*40)
	snap("t5")
	for i := 0; i < 8; i++ {
		ctx = huntNextBlock(t, e, ctx, time.Minute*6)
		huntFundRewards(t, e, ctx, 111_111)
	}
	snap("t6")
	ctx = huntNextBlock(t, e, ctx, ut)
	snap("t7")
	return tr
}

func TestHuntDifferential(t *testing.T) {
	e, ctx := huntBuildState(t)
	orig, _ := ctx.CacheContext()
	imp, exp1 := huntReimport(t, e.app, ctx)
	// second export identical
	exp2 := e.app.AppCodec().MustMarshalJSON(e.app.AllianceKeeper.ExportGenesis(imp))
	require.True(t, bytes.Equal(exp1, exp2), "second export differs")
	diffs := huntDiffStores(huntDumpStore(e.app, orig), huntDumpStore(e.app, imp))
	for _, d := range diffs {
		t.Log(d)
	}
	t.Logf("export: %s", string(exp1))
	trO := huntRun(t, e, orig)
	trI := huntRun(t, e, imp)
	require.Equal(t, len(trO), len(trI))
	n := 0
	for i := range trO {
		if trO[i] != trI[i] {
			n++
			if n < 10 {
				t.Errorf("trace differs at %d:\n orig: %.3000s\n imp : %.3000s", i, trO[i], trI[i])
			}
		}
	}
}

func TestHuntAppLevelRoundTrip(t *testing.T) {
	app, ctx := createTestContext(t)
	start := time.Date(2026, 1, 1, 0, 0, 0, 0, time.UTC)
	ctx = ctx.WithBlockTime(start).WithBlockHeight(10)
	ms := keeper.NewMsgServerImpl(app.AllianceKeeper)
	auth := app.AllianceKeeper.GetAuthority()
	_, err := ms.UpdateParams(ctx, &types.MsgUpdateParams{Authority: auth, Params: types.Params{RewardDelayTime: time.Hour, TakeRateClaimInterval: time.Minute * 5, LastTakeRateClaimTime: start}})
	require.NoError(t, err)
	addrs := test_helpers.AddTestAddrsIncremental(app, ctx, 4, sdk.NewCoins(
		sdk.NewCoin(AllianceDenom, math.NewInt(100_000_000)),
		sdk.NewCoin(AllianceDenomTwo, math.NewInt(100_000_000)),
		sdk.NewCoin("stake", math.NewInt(100_000_000)),
	))
	dels, err := app.StakingKeeper.GetAllDelegations(ctx)
	require.NoError(t, err)
	val0, _ := sdk.ValAddressFromBech32(dels[0].ValidatorAddress)
	// second validator through x/staking
	sms := stakingkeeper.NewMsgServerImpl(app.StakingKeeper)
	pk := test_helpers.CreateTestPubKeys(1)[0]
	val1 := sdk.ValAddress(addrs[0])
	cmsg, err := stakingtypes.NewMsgCreateValidator(val1.String(), pk, sdk.NewCoin("stake", math.NewInt(50_000_000)),
		stakingtypes.Description{Moniker: "v1"}, stakingtypes.NewCommissionRates(math.LegacyZeroDec(), math.LegacyOneDec(), math.LegacyOneDec()), math.OneInt())
	require.NoError(t, err)
	_, err = sms.CreateValidator(ctx, cmsg)
	require.NoError(t, err)
	vals := []sdk.ValAddress{val0, val1}
	e := huntEnv{app: app, vals: vals, users: addrs[1:]}
	mk := func(denom string, w string, take string) {
		_, err := ms.CreateAlliance(ctx, &types.MsgCreateAlliance{Authority: auth, Denom: denom,
			RewardWeight: math.LegacyMustNewDecFromStr(w), RewardWeightRange: types.RewardWeightRange{Min: math.LegacyZeroDec(), Max: math.LegacyNewDec(10)},
			TakeRate: math.LegacyMustNewDecFromStr(take), RewardChangeRate: math.LegacyOneDec()})
		require.NoError(t, err)
	}
	mk(AllianceDenom, "0.3", "0.0001")
	mk(AllianceDenomTwo, "0.5", "0")
	ctx = huntNextBlock(t, e, ctx, time.Minute)
	del := func(u, v int, d string, a int64) {
		_, err := ms.Delegate(ctx, &types.MsgDelegate{DelegatorAddress: e.users[u].String(), ValidatorAddress: vals[v].String(), Amount: sdk.NewCoin(d, math.NewInt(a))})
		require.NoError(t, err)
	}
	del(0, 0, AllianceDenom, 10_000_000)
	del(0, 1, AllianceDenom, 5_000_000)
	del(1, 1, AllianceDenomTwo, 8_000_000)
	del(2, 0, AllianceDenomTwo, 2_000_000)
	ctx = huntNextBlock(t, e, ctx, time.Hour)
	ctx = huntNextBlock(t, e, ctx, time.Minute)
	huntFundRewards(t, e, ctx, 1_000_000)
	ctx = huntNextBlock(t, e, ctx, time.Minute*6)
	_, err = ms.Redelegate(ctx, &types.MsgRedelegate{DelegatorAddress: e.users[0].String(), ValidatorSrcAddress: vals[0].String(), ValidatorDstAddress: vals[1].String(), Amount: sdk.NewCoin(AllianceDenom, math.NewInt(1_000_000))})
	require.NoError(t, err)
	_, err = ms.Undelegate(ctx, &types.MsgUndelegate{DelegatorAddress: e.users[1].String(), ValidatorAddress: vals[1].String(), Amount: sdk.NewCoin(AllianceDenomTwo, math.NewInt(1_000_000))})
	require.NoError(t, err)
	ctx = huntNextBlock(t, e, ctx, time.Minute*6)
	huntFundRewards(t, e, ctx, 500_000)
	ctx = huntNextBlock(t, e, ctx, time.Minute*6)

	exported, err := app.ExportAppStateAndValidators(false, nil, nil)
	require.NoError(t, err)

	app2 := test_helpers.New(log.NewNopLogger(), dbm.NewMemDB(), nil, true, map[int64]bool{}, test_helpers.DefaultNodeHome, 5, test_helpers.EmptyAppOptions{})
	_, err = app2.InitChain(&abci.RequestInitChain{
		Validators:      []abci.ValidatorUpdate{},
		ConsensusParams: simtestutil.DefaultConsensusParams,
		AppStateBytes:   exported.AppState,
		InitialHeight:   ctx.BlockHeight(),
		Time:            ctx.BlockTime(),
	})
	require.NoError(t, err)
	ctx2 := app2.NewContext(false).WithBlockTime(ctx.BlockTime()).WithBlockHeight(ctx.BlockHeight())
	exp1 := app.AppCodec().MustMarshalJSON(app.AllianceKeeper.ExportGenesis(ctx))
	exp2 := app2.AppCodec().MustMarshalJSON(app2.AllianceKeeper.ExportGenesis(ctx2))
	require.Equal(t, string(exp1), string(exp2))

	run := func(e huntEnv, ctx sdk.Context) huntTrace {
		var tr huntTrace
		ms := keeper.NewMsgServerImpl(e.app.AllianceKeeper)
		snap := func(l string) {
			for _, u := range e.users {
				tr.add("%s bal %s", l, e.app.BankKeeper.GetAllBalances(ctx, u))
			}
			for _, v := range e.vals {
				sv, _ := e.app.StakingKeeper.GetValidator(ctx, v)
				tr.add("%s val %s %s %s", l, v, sv.Tokens, sv.Status)
			}
			tr.add("%s export %s", l, string(e.app.AppCodec().MustMarshalJSON(e.app.AllianceKeeper.ExportGenesis(ctx))))
			tr.add("%s mod %s", l, e.app.BankKeeper.GetAllBalances(ctx, e.app.AccountKeeper.GetModuleAddress(types.ModuleName)))
			tr.add("%s pool %s", l, e.app.BankKeeper.GetAllBalances(ctx, e.app.AccountKeeper.GetModuleAddress(types.RewardsPoolName)))
			s, err := e.app.BankKeeper.TotalSupply(ctx, &banktypes.QueryTotalSupplyRequest{})
			tr.add("%s supply %v %v", l, s, err)
		}
		snap("a")
		ctx = huntNextBlock(t, e, ctx, time.Minute*6)
		huntFundRewards(t, e, ctx, 300_000)
		snap("b")
		for i, f := range []string{"0.1", "0.05"} {
			v, _ := e.app.StakingKeeper.GetValidator(ctx, e.vals[i])
			cons, _ := v.GetConsAddr()
			err := e.app.SlashingKeeper.Slash(ctx, cons, math.LegacyMustNewDecFromStr(f), v.GetConsensusPower(e.app.StakingKeeper.PowerReduction(ctx)), ctx.BlockHeight()-1)
			tr.add("slash %v", err)
		}
		ctx = huntNextBlock(t, e, ctx, time.Minute*6)
		for ui, u := range e.users {
			for vi, v := range e.vals {
				for _, d := range []string{AllianceDenom, AllianceDenomTwo} {
					_, err := ms.ClaimDelegationRewards(ctx, &types.MsgClaimDelegationRewards{DelegatorAddress: u.String(), ValidatorAddress: v.String(), Denom: d})
					tr.add("claim %d %d %s %v", ui, vi, d, err)
					_, err = ms.Undelegate(ctx, &types.MsgUndelegate{DelegatorAddress: u.String(), ValidatorAddress: v.String(), Amount: sdk.NewCoin(d, math.NewInt(50_000))})
					tr.add("undel %d %d %s %v", ui, vi, d, err)
				}
			}
		}
		snap("c")
		ut, _ := e.app.StakingKeeper.UnbondingTime(ctx)
		ctx = huntNextBlock(t, e, ctx, ut)
		snap("d")
		return tr
	}
	trO := run(e, ctx)
	trI := run(huntEnv{app: app2, vals: vals, users: e.users}, ctx2)
	require.Equal(t, len(trO), len(trI))
	for i := range trO {
		if trO[i] != trI[i] {
			t.Errorf("trace differs at %d:\n orig: %.3000s\n imp : %.3000s", i, trO[i], trI[i])
		}
	}
}
