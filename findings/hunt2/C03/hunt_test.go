package tests_test

import (
	"testing"
	"time"

	"cosmossdk.io/math"

	test_helpers "github.com/terra-money/alliance/app"
	"github.com/terra-money/alliance/x/alliance"
	"github.com/terra-money/alliance/x/alliance/keeper"
	"github.com/terra-money/alliance/x/alliance/types"

	sdk "github.com/cosmos/cosmos-sdk/types"
	teststaking "github.com/cosmos/cosmos-sdk/x/staking/testutil"
	stakingtypes "github.com/cosmos/cosmos-sdk/x/staking/types"
	"github.com/stretchr/testify/require"
)

// sumValidatorShares adds up the ValidatorShares of every alliance validator record for one denom
func huntSumValidatorShares(t *testing.T, k keeper.Keeper, ctx sdk.Context, denom string) math.LegacyDec {
	t.Helper()
	sum := math.LegacyZeroDec()
	err := k.IterateAllianceValidatorInfo(ctx, func(_ sdk.ValAddress, info types.AllianceValidatorInfo) bool {
		for _, s := range info.ValidatorShares {
			require.False(t, s.Amount.IsNegative(), "negative validator share")
			if s.Denom == denom {
				sum = sum.Add(s.Amount)
			}
		}
		return false
	})
	require.NoError(t, err)
	return sum
}

// C03: "for every asset the validators' asset shares sum to the asset's recorded share total".
//
// A full exit from a validator whose value is a whole number of tokens while shares-per-token (S/T) is a
// repeating decimal that rounds DOWN removes slightly less validator shares than the validator holds. The
// remainder is valued at 0 tokens, ClearDustDelegation wipes it from the validator record - but it is not
// taken out of asset.TotalValidatorShares. (K16 is the opposite rounding direction, handled in
// SubtractDecCoinsWithRounding.)
type huntEnv struct {
	app       *test_helpers.App
	ctx       sdk.Context
	ms        types.MsgServer
	startTime time.Time
	valAddr1  sdk.ValAddress
	valAddr2  sdk.ValAddress
	user1     sdk.AccAddress
	user2     sdk.AccAddress
}

// huntSetupSlashedPair: val1 holds 4.2M shares worth exactly 4.4M tokens, val2 39.9M shares, S/T = 21/22
func huntSetupSlashedPair(t *testing.T) huntEnv {
	t.Helper()
	app, ctx := createTestContext(t)
	startTime := time.Now().UTC()
	ctx = ctx.WithBlockTime(startTime).WithBlockHeight(1)
	bondDenom, err := app.StakingKeeper.BondDenom(ctx)
	require.NoError(t, err)
	ms := keeper.NewMsgServerImpl(app.AllianceKeeper)

	// the alliance is created through the governance message
	_, err = ms.CreateAlliance(ctx, &types.MsgCreateAlliance{
		Authority:            app.AllianceKeeper.GetAuthority(),
		Denom:                AllianceDenom,
		RewardWeight:         math.LegacyNewDec(1),
		TakeRate:             math.LegacyZeroDec(),
		RewardChangeRate:     math.LegacyOneDec(),
		RewardChangeInterval: 0,
		RewardWeightRange:    types.RewardWeightRange{Min: math.LegacyZeroDec(), Max: math.LegacyNewDec(5)},
	})
	require.NoError(t, err)

	addrs := test_helpers.AddTestAddrsIncremental(app, ctx, 4, sdk.NewCoins(
		sdk.NewCoin(bondDenom, math.NewInt(10_000_000)),
		sdk.NewCoin(AllianceDenom, math.NewInt(50_000_000)),
	))
	pks := test_helpers.CreateTestPubKeys(2)

	valAddr1 := sdk.ValAddress(addrs[0])
	_val1 := teststaking.NewValidator(t, valAddr1, pks[0])
	test_helpers.RegisterNewValidator(t, app, ctx, _val1)
	_val1, err = app.StakingKeeper.GetValidator(ctx, valAddr1) // bonded record
	require.NoError(t, err)
	_, err = app.StakingKeeper.Delegate(ctx, addrs[0], math.NewInt(1_000_000), stakingtypes.Unbonded, _val1, true)
	require.NoError(t, err)

	valAddr2 := sdk.ValAddress(addrs[1])
	_val2 := teststaking.NewValidator(t, valAddr2, pks[1])
	test_helpers.RegisterNewValidator(t, app, ctx, _val2)
	_val2, err = app.StakingKeeper.GetValidator(ctx, valAddr2) // bonded record
	require.NoError(t, err)
	_, err = app.StakingKeeper.Delegate(ctx, addrs[1], math.NewInt(1_000_000), stakingtypes.Unbonded, _val2, true)
	require.NoError(t, err)

	user1, user2 := addrs[2], addrs[3]

	// block 1: user1 stakes 4.2M on val1, user2 stakes 42M on val2
	_, err = ms.Delegate(ctx, &types.MsgDelegate{DelegatorAddress: user1.String(), ValidatorAddress: valAddr1.String(), Amount: sdk.NewCoin(AllianceDenom, math.NewInt(4_200_000))})
	require.NoError(t, err)
	_, err = ms.Delegate(ctx, &types.MsgDelegate{DelegatorAddress: user2.String(), ValidatorAddress: valAddr2.String(), Amount: sdk.NewCoin(AllianceDenom, math.NewInt(42_000_000))})
	require.NoError(t, err)
	require.NoError(t, alliance.EndBlocker(ctx, app.AllianceKeeper))

	asset, _ := app.AllianceKeeper.GetAssetByDenom(ctx, AllianceDenom)
	require.True(t, asset.TotalValidatorShares.Equal(huntSumValidatorShares(t, app.AllianceKeeper, ctx, AllianceDenom)))

	// block 2: val2 double signs, x/slashing slashes it by the default 5% through x/staking -> alliance hook
	ctx = ctx.WithBlockTime(startTime.Add(time.Minute)).WithBlockHeight(2)
	sval2, err := app.StakingKeeper.GetValidator(ctx, valAddr2)
	require.NoError(t, err)
	consAddr2, err := sval2.GetConsAddr()
	require.NoError(t, err)
	fraction, err := app.SlashingKeeper.SlashFractionDoubleSign(ctx)
	require.NoError(t, err)
	require.Equal(t, math.LegacyNewDecWithPrec(5, 2), fraction)
	err = app.SlashingKeeper.Slash(ctx, consAddr2, fraction, sval2.GetConsensusPower(app.StakingKeeper.PowerReduction(ctx)), 1)
	require.NoError(t, err)
	require.NoError(t, alliance.EndBlocker(ctx, app.AllianceKeeper))

	asset, _ = app.AllianceKeeper.GetAssetByDenom(ctx, AllianceDenom)
	require.Equal(t, math.NewInt(46_200_000), asset.TotalTokens)
	require.Equal(t, math.LegacyNewDec(44_100_000).String(), asset.TotalValidatorShares.String())
	require.True(t, asset.TotalValidatorShares.Equal(huntSumValidatorShares(t, app.AllianceKeeper, ctx, AllianceDenom)), "ledger consistent after the slash")

	// val1 is now worth 4.2M * 46.2M / 44.1M = 4.4M tokens exactly, the query reports that balance
	val1, err := app.AllianceKeeper.GetAllianceValidator(ctx, valAddr1)
	require.NoError(t, err)
	del, found := app.AllianceKeeper.GetDelegation(ctx, user1, valAddr1, AllianceDenom)
	require.True(t, found)
	require.Equal(t, math.NewInt(4_400_000), types.GetDelegationTokens(del, val1, asset).Amount)

	return huntEnv{app: app, ctx: ctx, ms: ms, startTime: startTime, valAddr1: valAddr1, valAddr2: valAddr2, user1: user1, user2: user2}
}

func TestHuntClearDustLeavesOrphanValidatorSharesInAssetTotal(t *testing.T) {
	e := huntSetupSlashedPair(t)
	app, ctx, ms, startTime, valAddr1, valAddr2, user1 := e.app, e.ctx, e.ms, e.startTime, e.valAddr1, e.valAddr2, e.user1
	var err error
	var found bool
	var asset types.AllianceAsset

	// block 3: user1 leaves val1 completely
	ctx = ctx.WithBlockTime(startTime.Add(2 * time.Minute)).WithBlockHeight(3)
	_, err = ms.Undelegate(ctx, &types.MsgUndelegate{DelegatorAddress: user1.String(), ValidatorAddress: valAddr1.String(), Amount: sdk.NewCoin(AllianceDenom, math.NewInt(4_400_000))})
	require.NoError(t, err)
	require.NoError(t, alliance.EndBlocker(ctx, app.AllianceKeeper))

	_, found = app.AllianceKeeper.GetDelegation(ctx, user1, valAddr1, AllianceDenom)
	require.False(t, found)
	info1, _ := app.AllianceKeeper.GetAllianceValidatorInfo(ctx, valAddr1)
	info2, _ := app.AllianceKeeper.GetAllianceValidatorInfo(ctx, valAddr2)
	asset, _ = app.AllianceKeeper.GetAssetByDenom(ctx, AllianceDenom)
	sum := huntSumValidatorShares(t, app.AllianceKeeper, ctx, AllianceDenom)
	t.Logf("val1 ValidatorShares=%s val2 ValidatorShares=%s sum=%s asset.TotalValidatorShares=%s asset.TotalTokens=%s",
		sdk.DecCoins(info1.ValidatorShares), sdk.DecCoins(info2.ValidatorShares), sum, asset.TotalValidatorShares, asset.TotalTokens)

	// the staked total has not returned to zero, no reset is due: the records have to add up
	require.True(t, asset.TotalTokens.IsPositive())
	require.True(t, asset.TotalValidatorShares.Equal(sum),
		"C03 violated: validators' %s shares sum to %s but asset.TotalValidatorShares = %s (diff %s)",
		AllianceDenom, sum, asset.TotalValidatorShares, asset.TotalValidatorShares.Sub(sum))
}

// Same defect through MsgRedelegate: the source validator's remainder is wiped, the destination receives the
// rounded-down amount, the asset total is (correctly) left alone -> the records no longer add up
func TestHuntClearDustRedelegateOrphanValidatorShares(t *testing.T) {
	e := huntSetupSlashedPair(t)
	app, ctx, ms, startTime, valAddr1, valAddr2, user1 := e.app, e.ctx, e.ms, e.startTime, e.valAddr1, e.valAddr2, e.user1

	ctx = ctx.WithBlockTime(startTime.Add(2 * time.Minute)).WithBlockHeight(3)
	_, err := ms.Redelegate(ctx, &types.MsgRedelegate{DelegatorAddress: user1.String(), ValidatorSrcAddress: valAddr1.String(), ValidatorDstAddress: valAddr2.String(), Amount: sdk.NewCoin(AllianceDenom, math.NewInt(4_400_000))})
	require.NoError(t, err)
	require.NoError(t, alliance.EndBlocker(ctx, app.AllianceKeeper))

	info1, _ := app.AllianceKeeper.GetAllianceValidatorInfo(ctx, valAddr1)
	info2, _ := app.AllianceKeeper.GetAllianceValidatorInfo(ctx, valAddr2)
	asset, _ := app.AllianceKeeper.GetAssetByDenom(ctx, AllianceDenom)
	sum := huntSumValidatorShares(t, app.AllianceKeeper, ctx, AllianceDenom)
	t.Logf("val1 ValidatorShares=%s val2 ValidatorShares=%s sum=%s asset.TotalValidatorShares=%s asset.TotalTokens=%s",
		sdk.DecCoins(info1.ValidatorShares), sdk.DecCoins(info2.ValidatorShares), sum, asset.TotalValidatorShares, asset.TotalTokens)
	require.True(t, asset.TotalValidatorShares.Equal(sum),
		"C03 violated: validators' %s shares sum to %s but asset.TotalValidatorShares = %s (diff %s)",
		AllianceDenom, sum, asset.TotalValidatorShares, asset.TotalValidatorShares.Sub(sum))
}
