package tests_test

import (
	"math/big"
	"testing"
	"time"

	"cosmossdk.io/math"

	authtypes "github.com/cosmos/cosmos-sdk/x/auth/types"

	test_helpers "github.com/terra-money/alliance/app"
	"github.com/terra-money/alliance/x/alliance"
	"github.com/terra-money/alliance/x/alliance/keeper"
	"github.com/terra-money/alliance/x/alliance/types"

	sdk "github.com/cosmos/cosmos-sdk/types"
	"github.com/stretchr/testify/require"
)

// exactFloor returns floor(T * (1-r)^n) computed with exact rational arithmetic
func exactFloor(total math.Int, rate math.LegacyDec, n uint64) math.Int {
	one := new(big.Int).Exp(big.NewInt(10), big.NewInt(18), nil)
	num := new(big.Int).Sub(one, rate.BigInt()) // (1-r) * 1e18
	numN := new(big.Int).Exp(num, new(big.Int).SetUint64(n), nil)
	denN := new(big.Int).Exp(one, new(big.Int).SetUint64(n), nil)
	res := new(big.Int).Mul(total.BigInt(), numN)
	res.Quo(res, denN) // all operands positive: Quo == floor
	return math.NewIntFromBigInt(res)
}

// Clause: "Stake is never charged for intervals that elapsed before it was deposited (beyond the interval in
// progress)".
// The take rate hook only runs in the end blocker, after the messages of the block, and charges every whole interval
// since the clock against the totals as they are at the end of the block. Stake that is deposited (MsgDelegate) in the
// first block after a block gap (chain halt / upgrade) is charged for all the intervals of the gap.
func TestHuntTakeRateChargesNewStakeForBlockGap(t *testing.T) {
	app, ctx := createTestContext(t)
	startTime := time.Now().UTC()
	ctx = ctx.WithBlockTime(startTime).WithBlockHeight(1)
	interval := time.Minute * 5
	rate := math.LegacyMustNewDecFromStr("0.01")
	app.AllianceKeeper.InitGenesis(ctx, &types.GenesisState{
		Params: types.Params{
			RewardDelayTime:       time.Minute * 60,
			TakeRateClaimInterval: interval,
			LastTakeRateClaimTime: startTime,
		},
		Assets: []types.AllianceAsset{
			types.NewAllianceAsset(AllianceDenom, math.LegacyNewDec(1), math.LegacyZeroDec(), math.LegacyNewDec(5), rate, startTime),
		},
	})
	msgServer := keeper.NewMsgServerImpl(app.AllianceKeeper)

	delegations, err := app.StakingKeeper.GetAllDelegations(ctx)
	require.NoError(t, err)
	valAddr1, err := sdk.ValAddressFromBech32(delegations[0].ValidatorAddress)
	require.NoError(t, err)
	addrs := test_helpers.AddTestAddrsIncremental(app, ctx, 2, sdk.NewCoins(
		sdk.NewCoin(AllianceDenom, math.NewInt(1_000_000_000)),
	))
	user1, user2 := addrs[0], addrs[1]

	// block 1: user1 stakes, end blocker (nothing due yet)
	_, err = msgServer.Delegate(ctx, &types.MsgDelegate{DelegatorAddress: user1.String(), ValidatorAddress: valAddr1.String(), Amount: sdk.NewCoin(AllianceDenom, math.NewInt(1_000_000_000))})
	require.NoError(t, err)
	require.NoError(t, alliance.EndBlocker(ctx, app.AllianceKeeper))

	// block 2: one interval later, regular deduction, the clock follows
	ctx = ctx.WithBlockTime(startTime.Add(interval + time.Second)).WithBlockHeight(2)
	require.NoError(t, alliance.EndBlocker(ctx, app.AllianceKeeper))
	require.Equal(t, startTime.Add(interval), app.AllianceKeeper.LastRewardClaimTime(ctx))

	// block 3: first block after a one hour halt. user2 deposits in this block
	ctx = ctx.WithBlockTime(startTime.Add(interval + time.Hour + time.Second)).WithBlockHeight(3)
	deposit := math.NewInt(1_000_000_000)
	_, err = msgServer.Delegate(ctx, &types.MsgDelegate{DelegatorAddress: user2.String(), ValidatorAddress: valAddr1.String(), Amount: sdk.NewCoin(AllianceDenom, deposit)})
	require.NoError(t, err)
	require.NoError(t, alliance.EndBlocker(ctx, app.AllianceKeeper))
	// the clock moved 12 intervals
	require.Equal(t, startTime.Add(interval*13), app.AllianceKeeper.LastRewardClaimTime(ctx))

	val1, err := app.AllianceKeeper.GetAllianceValidator(ctx, valAddr1)
	require.NoError(t, err)
	asset, _ := app.AllianceKeeper.GetAssetByDenom(ctx, AllianceDenom)
	del2, found := app.AllianceKeeper.GetDelegation(ctx, user2, valAddr1, AllianceDenom)
	require.True(t, found)
	left := types.GetDelegationTokens(del2, val1, asset).Amount

	// All 12 intervals of the gap ended before the deposit was made. Tolerating the charge for one interval (the
	// "interval in progress"), the position must still be worth at least floor(D*(1-r)) (minus one unit of rounding)
	atLeast := exactFloor(deposit, rate, 1).SubRaw(1)
	require.True(t, left.GTE(atLeast),
		"stake deposited in this block is worth %s right after the block, expected at least %s: it was charged for the 12 intervals that elapsed before it was deposited (D*(0.99)^12 = %s)",
		left, atLeast, exactFloor(deposit, rate, 12))
}

// Clause: "assets are not charged before their reward start time".
// Same mechanism seen from the asset side: an asset whose reward start time lies at the end of a block gap is charged
// for every interval of the gap, although it was still in its warm-up during all but the last of them.
func TestHuntTakeRateChargesAssetForIntervalsBeforeRewardStart(t *testing.T) {
	app, ctx := createTestContext(t)
	startTime := time.Now().UTC()
	ctx = ctx.WithBlockTime(startTime).WithBlockHeight(1)
	interval := time.Minute * 5
	rate := math.LegacyMustNewDecFromStr("0.01")
	// the second asset leaves its warm-up 62 minutes after the start
	rewardStart := startTime.Add(time.Minute * 62)
	app.AllianceKeeper.InitGenesis(ctx, &types.GenesisState{
		Params: types.Params{
			RewardDelayTime:       time.Minute * 60,
			TakeRateClaimInterval: interval,
			LastTakeRateClaimTime: startTime,
		},
		Assets: []types.AllianceAsset{
			types.NewAllianceAsset(AllianceDenom, math.LegacyNewDec(1), math.LegacyZeroDec(), math.LegacyNewDec(5), rate, startTime),
			types.NewAllianceAsset(AllianceDenomTwo, math.LegacyNewDec(1), math.LegacyZeroDec(), math.LegacyNewDec(5), rate, rewardStart),
		},
	})
	msgServer := keeper.NewMsgServerImpl(app.AllianceKeeper)
	feeCollectorAddr := app.AccountKeeper.GetModuleAddress(authtypes.FeeCollectorName)

	delegations, err := app.StakingKeeper.GetAllDelegations(ctx)
	require.NoError(t, err)
	valAddr1, err := sdk.ValAddressFromBech32(delegations[0].ValidatorAddress)
	require.NoError(t, err)
	addrs := test_helpers.AddTestAddrsIncremental(app, ctx, 1, sdk.NewCoins(
		sdk.NewCoin(AllianceDenom, math.NewInt(1_000_000_000)),
		sdk.NewCoin(AllianceDenomTwo, math.NewInt(1_000_000_000)),
	))
	user1 := addrs[0]

	_, err = msgServer.Delegate(ctx, &types.MsgDelegate{DelegatorAddress: user1.String(), ValidatorAddress: valAddr1.String(), Amount: sdk.NewCoin(AllianceDenom, math.NewInt(1_000_000_000))})
	require.NoError(t, err)
	_, err = msgServer.Delegate(ctx, &types.MsgDelegate{DelegatorAddress: user1.String(), ValidatorAddress: valAddr1.String(), Amount: sdk.NewCoin(AllianceDenomTwo, math.NewInt(1_000_000_000))})
	require.NoError(t, err)
	require.NoError(t, alliance.EndBlocker(ctx, app.AllianceKeeper))

	// block 2: regular deduction of the active asset only, clock = start + 5m
	ctx = ctx.WithBlockTime(startTime.Add(interval + time.Second)).WithBlockHeight(2)
	require.NoError(t, alliance.EndBlocker(ctx, app.AllianceKeeper))
	require.Equal(t, startTime.Add(interval), app.AllianceKeeper.LastRewardClaimTime(ctx))
	two, _ := app.AllianceKeeper.GetAssetByDenom(ctx, AllianceDenomTwo)
	require.Equal(t, math.NewInt(1_000_000_000), two.TotalTokens)
	require.True(t, app.BankKeeper.GetBalance(ctx, feeCollectorAddr, AllianceDenomTwo).IsZero())

	// block 3: after a one hour gap, 3m01s after the second asset left its warm-up. 12 intervals are due:
	// (start+5m, start+65m]. The asset was in warm-up during the first 11 of them (they end at start+60m <= start+62m)
	ctx = ctx.WithBlockTime(startTime.Add(interval + time.Hour + time.Second)).WithBlockHeight(3)
	require.NoError(t, alliance.EndBlocker(ctx, app.AllianceKeeper))
	require.Equal(t, startTime.Add(interval*13), app.AllianceKeeper.LastRewardClaimTime(ctx))

	two, _ = app.AllianceKeeper.GetAssetByDenom(ctx, AllianceDenomTwo)
	// only one interval, (start+60m, start+65m], overlaps the time after the reward start
	atLeast := exactFloor(math.NewInt(1_000_000_000), rate, 1)
	require.True(t, two.TotalTokens.GTE(atLeast),
		"asset that started rewards 3 minutes ago has %s of 1000000000 left, expected at least %s: it was charged for 12 intervals, 11 of which ended before its reward start time",
		two.TotalTokens, atLeast)
}

// Clause: "Each take-rate deduction lowers an asset's staked total from T to floor(T*(1-r)^n)" (exact compounding) and
// "moves exactly the difference".
// (1-r)^n is computed with LegacyDec.Power, which rounds every intermediate product to 18 decimals. With an 18 decimal
// alliance token the staked total after a deduction over n >= 2 intervals differs from floor(T*(1-r)^n) by many units,
// in both directions (over- and under-charging).
func TestHuntTakeRateCompoundingNotExact(t *testing.T) {
	app, ctx := createTestContext(t)
	startTime := time.Now().UTC()
	ctx = ctx.WithBlockTime(startTime).WithBlockHeight(1)
	interval := time.Minute * 5
	// 1% per year expressed per 5 minute interval: 1 - 0.99^(1/105120)
	rate := math.LegacyMustNewDecFromStr("0.000000095607170648")
	app.AllianceKeeper.InitGenesis(ctx, &types.GenesisState{
		Params: types.Params{
			RewardDelayTime:       time.Minute * 60,
			TakeRateClaimInterval: interval,
			LastTakeRateClaimTime: startTime,
		},
		Assets: []types.AllianceAsset{
			types.NewAllianceAsset(AllianceDenom, math.LegacyNewDec(1), math.LegacyZeroDec(), math.LegacyNewDec(5), rate, startTime),
		},
	})
	msgServer := keeper.NewMsgServerImpl(app.AllianceKeeper)
	feeCollectorAddr := app.AccountKeeper.GetModuleAddress(authtypes.FeeCollectorName)
	moduleAddr := app.AccountKeeper.GetModuleAddress(types.ModuleName)

	delegations, err := app.StakingKeeper.GetAllDelegations(ctx)
	require.NoError(t, err)
	valAddr1, err := sdk.ValAddressFromBech32(delegations[0].ValidatorAddress)
	require.NoError(t, err)
	// one million tokens with 18 decimals
	stake, _ := math.NewIntFromString("1000000000000000000000000")
	addrs := test_helpers.AddTestAddrsIncremental(app, ctx, 1, sdk.NewCoins(sdk.NewCoin(AllianceDenom, stake)))
	user1 := addrs[0]
	_, err = msgServer.Delegate(ctx, &types.MsgDelegate{DelegatorAddress: user1.String(), ValidatorAddress: valAddr1.String(), Amount: sdk.NewCoin(AllianceDenom, stake)})
	require.NoError(t, err)
	require.NoError(t, alliance.EndBlocker(ctx, app.AllianceKeeper))

	// next block 15m01s later: n = 3 intervals
	ctx = ctx.WithBlockTime(startTime.Add(interval*3 + time.Second)).WithBlockHeight(2)
	before, _ := app.AllianceKeeper.GetAssetByDenom(ctx, AllianceDenom)
	custodyBefore := app.BankKeeper.GetBalance(ctx, moduleAddr, AllianceDenom).Amount
	require.NoError(t, alliance.EndBlocker(ctx, app.AllianceKeeper))
	require.Equal(t, startTime.Add(interval*3), app.AllianceKeeper.LastRewardClaimTime(ctx))
	after, _ := app.AllianceKeeper.GetAssetByDenom(ctx, AllianceDenom)
	custodyAfter := app.BankKeeper.GetBalance(ctx, moduleAddr, AllianceDenom).Amount
	fee := app.BankKeeper.GetBalance(ctx, feeCollectorAddr, AllianceDenom).Amount

	// the transfer matches the bookkeeping ...
	require.Equal(t, before.TotalTokens.Sub(after.TotalTokens), fee)
	require.Equal(t, custodyBefore.Sub(custodyAfter), fee)
	// ... but the new total is not floor(T*(1-r)^3)
	expected := exactFloor(before.TotalTokens, rate, 3)
	require.True(t, after.TotalTokens.Equal(expected),
		"total after 3 intervals is %s, floor(T*(1-r)^3) is %s, difference %s units",
		after.TotalTokens, expected, after.TotalTokens.Sub(expected))
}

// Clause: "assets are not charged ... at rate zero".
// Third view of the same mechanism: governance raises the take rate from zero in the first block after a block gap
// (MsgUpdateAlliance is executed before the end blocker). All intervals of the gap, during which the rate was zero,
// are charged at the new rate.
func TestHuntTakeRateChargesZeroRateIntervalsAtNewRate(t *testing.T) {
	app, ctx := createTestContext(t)
	startTime := time.Now().UTC()
	ctx = ctx.WithBlockTime(startTime).WithBlockHeight(1)
	interval := time.Minute * 5
	rate := math.LegacyMustNewDecFromStr("0.01")
	app.AllianceKeeper.InitGenesis(ctx, &types.GenesisState{
		Params: types.Params{
			RewardDelayTime:       time.Minute * 60,
			TakeRateClaimInterval: interval,
			LastTakeRateClaimTime: startTime,
		},
		Assets: []types.AllianceAsset{
			types.NewAllianceAsset(AllianceDenom, math.LegacyNewDec(1), math.LegacyZeroDec(), math.LegacyNewDec(5), math.LegacyZeroDec(), startTime),
		},
	})
	msgServer := keeper.NewMsgServerImpl(app.AllianceKeeper)

	delegations, err := app.StakingKeeper.GetAllDelegations(ctx)
	require.NoError(t, err)
	valAddr1, err := sdk.ValAddressFromBech32(delegations[0].ValidatorAddress)
	require.NoError(t, err)
	addrs := test_helpers.AddTestAddrsIncremental(app, ctx, 1, sdk.NewCoins(sdk.NewCoin(AllianceDenom, math.NewInt(1_000_000_000))))
	_, err = msgServer.Delegate(ctx, &types.MsgDelegate{DelegatorAddress: addrs[0].String(), ValidatorAddress: valAddr1.String(), Amount: sdk.NewCoin(AllianceDenom, math.NewInt(1_000_000_000))})
	require.NoError(t, err)
	require.NoError(t, alliance.EndBlocker(ctx, app.AllianceKeeper))

	// block 2: nothing to charge at rate zero, the clock is set to the block time
	ctx = ctx.WithBlockTime(startTime.Add(interval + time.Second)).WithBlockHeight(2)
	require.NoError(t, alliance.EndBlocker(ctx, app.AllianceKeeper))
	require.Equal(t, ctx.BlockTime(), app.AllianceKeeper.LastRewardClaimTime(ctx))

	// block 3: one hour later, the governance message that sets the take rate to 1% is executed
	ctx = ctx.WithBlockTime(ctx.BlockTime().Add(time.Hour + time.Second)).WithBlockHeight(3)
	_, err = msgServer.UpdateAlliance(ctx, &types.MsgUpdateAlliance{
		Authority:            app.AllianceKeeper.GetAuthority(),
		Denom:                AllianceDenom,
		RewardWeight:         math.LegacyNewDec(1),
		RewardWeightRange:    types.RewardWeightRange{Min: math.LegacyZeroDec(), Max: math.LegacyNewDec(5)},
		TakeRate:             rate,
		RewardChangeRate:     math.LegacyOneDec(),
		RewardChangeInterval: 0,
	})
	require.NoError(t, err)
	require.NoError(t, alliance.EndBlocker(ctx, app.AllianceKeeper))

	asset, _ := app.AllianceKeeper.GetAssetByDenom(ctx, AllianceDenom)
	atLeast := exactFloor(math.NewInt(1_000_000_000), rate, 1)
	require.True(t, asset.TotalTokens.GTE(atLeast),
		"the take rate was zero until this block, yet %s of 1000000000 is left (expected at least %s): 12 past intervals were charged at the new rate",
		asset.TotalTokens, atLeast)
}
