package tests_test

import (
	"fmt"
	"math/rand"
	"os"
	"runtime/debug"
	"strconv"
	"testing"
	"time"

	"cosmossdk.io/core/comet"
	"cosmossdk.io/math"
	cryptotypes "github.com/cosmos/cosmos-sdk/crypto/types"
	sdk "github.com/cosmos/cosmos-sdk/types"
	authtypes "github.com/cosmos/cosmos-sdk/x/auth/types"
	distrtypes "github.com/cosmos/cosmos-sdk/x/distribution/types"
	govtypes "github.com/cosmos/cosmos-sdk/x/gov/types"
	minttypes "github.com/cosmos/cosmos-sdk/x/mint/types"
	slashingkeeper "github.com/cosmos/cosmos-sdk/x/slashing/keeper"
	slashingtypes "github.com/cosmos/cosmos-sdk/x/slashing/types"
	stakingkeeper "github.com/cosmos/cosmos-sdk/x/staking/keeper"
	stakingtypes "github.com/cosmos/cosmos-sdk/x/staking/types"
	"github.com/stretchr/testify/require"
	test_helpers "github.com/terra-money/alliance/app"
	"github.com/terra-money/alliance/x/alliance"
	"github.com/terra-money/alliance/x/alliance/keeper"
	"github.com/terra-money/alliance/x/alliance/types"
)

// huntTx runs fn like a transaction: on a cached context, reverted on error or panic
func huntTx(ctx sdk.Context, fn func(ctx sdk.Context) error) (err error) {
	cacheCtx, write := ctx.CacheContext()
	defer func() {
		if r := recover(); r != nil {
			err = fmt.Errorf("tx panic: %v", r)
		}
	}()
	if err = fn(cacheCtx); err != nil {
		return err
	}
	write()
	return nil
}

// huntEndBlock runs staking's end blocker followed by the alliance end blocker (the app's order) and reports
// an error or panic of the alliance end blocker
func huntEndBlock(app *test_helpers.App, ctx sdk.Context) (err error) {
	if _, err = app.StakingKeeper.EndBlocker(ctx); err != nil {
		return fmt.Errorf("staking end blocker: %w", err)
	}
	defer func() {
		if r := recover(); r != nil {
			err = fmt.Errorf("alliance end blocker PANIC: %v\n%s", r, debug.Stack())
		}
	}()
	return alliance.EndBlocker(ctx, app.AllianceKeeper)
}

func huntRandAmount(r *rand.Rand) math.Int {
	switch r.Intn(5) {
	case 0:
		return math.NewInt(int64(1 + r.Intn(10)))
	case 1:
		return math.NewInt(int64(1 + r.Intn(1_000_000)))
	case 2:
		return math.NewInt(int64(1_000_000 + r.Intn(1_000_000_000)))
	case 3:
		return math.NewInt(int64(1 + r.Intn(1_000_000))).Mul(math.NewInt(1_000_000_000_000))
	default:
		return math.NewInt(int64(1 + r.Intn(1_000_000))).Mul(math.NewIntWithDecimal(1, 18))
	}
}

func TestHuntFuzzEndBlocker(t *testing.T) {
	seeds := []int64{1, 2, 3, 4, 5, 6, 7, 8}
	if s := os.Getenv("HUNT_SEEDS"); s != "" {
		n, _ := strconv.Atoi(s)
		seeds = nil
		for i := 0; i < n; i++ {
			seeds = append(seeds, int64(100+i))
		}
	}
	for _, seed := range seeds {
		seed := seed
		t.Run(fmt.Sprintf("seed%d", seed), func(t *testing.T) {
			huntFuzz(t, seed)
		})
	}
}

func huntFuzz(t *testing.T, seed int64) {
	r := rand.New(rand.NewSource(seed))
	app, ctx := createTestContext(t)
	ctx = app.BaseApp.NewContext(false)
	now := time.Date(2026, 1, 1, 0, 0, 0, 0, time.UTC)
	height := int64(10)
	ctx = ctx.WithBlockTime(now).WithBlockHeight(height)
	authority := authtypes.NewModuleAddress(govtypes.ModuleName).String()
	ams := keeper.NewMsgServerImpl(app.AllianceKeeper)
	sms := stakingkeeper.NewMsgServerImpl(app.StakingKeeper)

	params := types.DefaultParams()
	params.RewardDelayTime = time.Minute
	params.TakeRateClaimInterval = time.Minute
	app.AllianceKeeper.InitGenesis(ctx, &types.GenesisState{Params: params})

	stParams, err := app.StakingKeeper.GetParams(ctx)
	require.NoError(t, err)
	stParams.UnbondingTime = 10 * time.Minute
	stParams.MaxValidators = 4
	require.NoError(t, app.StakingKeeper.SetParams(ctx, stParams))
	bondDenom := stParams.BondDenom

	denoms := []string{"alliance", "alliance2", "ibc/ABCDEF"}
	big := math.NewIntWithDecimal(1, 30)
	funds := sdk.NewCoins(sdk.NewCoin(bondDenom, big))
	for _, d := range denoms {
		funds = funds.Add(sdk.NewCoin(d, big))
	}
	const nVals = 6
	const nUsers = 5
	addrs := test_helpers.AddTestAddrsIncremental(app, ctx, nVals+nUsers, funds)
	pks := test_helpers.CreateTestPubKeys(nVals)
	valAccs := addrs[:nVals]
	users := addrs[nVals:]

	for i := 0; i < nVals; i++ {
		msg, err := stakingtypes.NewMsgCreateValidator(sdk.ValAddress(valAccs[i]).String(), pks[i],
			sdk.NewCoin(bondDenom, math.NewInt(int64(1_000_000*(i+1)))), stakingtypes.Description{Moniker: fmt.Sprintf("v%d", i)},
			stakingtypes.NewCommissionRates(math.LegacyNewDecWithPrec(int64(i), 1), math.LegacyOneDec(), math.LegacyOneDec()), math.OneInt())
		require.NoError(t, err)
		_, err = sms.CreateValidator(ctx, msg)
		require.NoError(t, err)
	}
	for i, d := range denoms {
		_, err := ams.CreateAlliance(ctx, &types.MsgCreateAlliance{
			Authority: authority, Denom: d,
			RewardWeight:         math.LegacyNewDecWithPrec(int64(5*(i+1)), 2),
			TakeRate:             math.LegacyNewDecWithPrec(int64(i), 2),
			RewardChangeRate:     math.LegacyOneDec(),
			RewardChangeInterval: 0,
			RewardWeightRange:    types.RewardWeightRange{Min: math.LegacyZeroDec(), Max: math.LegacyNewDec(10)},
		})
		require.NoError(t, err)
	}
	require.NoError(t, huntEndBlock(app, ctx))

	randVal := func() sdk.ValAddress { return sdk.ValAddress(valAccs[r.Intn(nVals)]) }
	randUser := func() sdk.AccAddress { return users[r.Intn(nUsers)] }
	randDenom := func() string { return denoms[r.Intn(len(denoms))] }

	stats := map[int]*[2]int{}
	for i := 0; i < 16; i++ {
		stats[i] = &[2]int{}
	}
	defer func() {
		line := ""
		for i := 0; i < 16; i++ {
			line += fmt.Sprintf("op%d:%d/%d ", i, stats[i][1], stats[i][0])
		}
		t.Log("failed/total " + line)
	}()
	for block := 0; block < 250; block++ {
		height++
		now = now.Add(time.Duration(1+r.Intn(120)) * time.Second)
		ctx = ctx.WithBlockTime(now).WithBlockHeight(height)

		// begin block: fees to the bonded validators, like x/distribution does
		vals, err := app.StakingKeeper.GetBondedValidatorsByPower(ctx)
		require.NoError(t, err)
		for _, v := range vals {
			fee := sdk.NewCoins(sdk.NewCoin(bondDenom, math.NewInt(int64(1+r.Intn(5_000_000)))))
			if r.Intn(3) == 0 {
				fee = fee.Add(sdk.NewCoin(randDenom(), math.NewInt(int64(1+r.Intn(1000)))))
			}
			require.NoError(t, app.BankKeeper.MintCoins(ctx, minttypes.ModuleName, fee))
			require.NoError(t, app.BankKeeper.SendCoinsFromModuleToModule(ctx, minttypes.ModuleName, distrtypes.ModuleName, fee))
			require.NoError(t, app.DistrKeeper.AllocateTokensToValidator(ctx, v, sdk.NewDecCoinsFromCoins(fee...)))
		}
		// begin block: slashing / evidence
		if r.Intn(12) == 0 && len(vals) > 1 {
			v := vals[r.Intn(len(vals))]
			cons, _ := v.GetConsAddr()
			fr := []string{"0.01", "0.05", "0.3", "0.5", "0.9", "0.666666666666666667", "1"}[r.Intn(6+int(seed%2))]
			power := v.ConsensusPower(app.StakingKeeper.PowerReduction(ctx))
			// the slash hook can panic with the known division by zero (K5), that is not the subject here
			_ = huntTx(ctx, func(ctx sdk.Context) error {
				if _, err := app.StakingKeeper.Slash(ctx, cons, height-int64(r.Intn(3)), power, math.LegacyMustNewDecFromStr(fr)); err != nil {
					return err
				}
				return app.StakingKeeper.Jail(ctx, cons)
			})
		}

		nOps := r.Intn(6)
		for i := 0; i < nOps; i++ {
			op := r.Intn(16)
			opErr := huntTx(ctx, func(ctx sdk.Context) error {
				var err error
				switch op {
				case 0, 1, 2:
					_, err = ams.Delegate(ctx, types.NewMsgDelegate(randUser().String(), randVal().String(), sdk.NewCoin(randDenom(), huntRandAmount(r))))
				case 3, 4:
					// undelegate a part or all of a position
					u, v, d := randUser(), randVal(), randDenom()
					del, found := app.AllianceKeeper.GetDelegation(ctx, u, v, d)
					if !found {
						return nil
					}
					av, _ := app.AllianceKeeper.GetAllianceValidator(ctx, v)
					as, _ := app.AllianceKeeper.GetAssetByDenom(ctx, d)
					bal := types.GetDelegationTokens(del, av, as)
					amt := bal.Amount
					if r.Intn(2) == 0 && amt.GT(math.OneInt()) {
						amt = amt.QuoRaw(int64(2 + r.Intn(5)))
					}
					if !amt.IsPositive() {
						return nil
					}
					_, err = ams.Undelegate(ctx, types.NewMsgUndelegate(u.String(), v.String(), sdk.NewCoin(d, amt)))
				case 5, 6:
					u, v, d := randUser(), randVal(), randDenom()
					del, found := app.AllianceKeeper.GetDelegation(ctx, u, v, d)
					if !found {
						return nil
					}
					av, _ := app.AllianceKeeper.GetAllianceValidator(ctx, v)
					as, _ := app.AllianceKeeper.GetAssetByDenom(ctx, d)
					amt := types.GetDelegationTokens(del, av, as).Amount
					if r.Intn(2) == 0 && amt.GT(math.OneInt()) {
						amt = amt.QuoRaw(int64(2 + r.Intn(5)))
					}
					if !amt.IsPositive() {
						return nil
					}
					_, err = ams.Redelegate(ctx, types.NewMsgRedelegate(u.String(), v.String(), randVal().String(), sdk.NewCoin(d, amt)))
				case 7:
					_, err = ams.ClaimDelegationRewards(ctx, types.NewMsgClaimDelegationRewards(randUser().String(), randVal().String(), randDenom()))
				case 8:
					amt := huntRandAmount(r)
					if amt.GT(math.NewInt(1_000_000_000_000)) {
						amt = math.NewInt(int64(1 + r.Intn(1_000_000_000)))
					}
					_, err = sms.Delegate(ctx, stakingtypes.NewMsgDelegate(randUser().String(), randVal().String(), sdk.NewCoin(bondDenom, amt)))
				case 9:
					u, v := randUser(), randVal()
					if r.Intn(3) == 0 {
						u = valAccs[r.Intn(nVals)]
						v = sdk.ValAddress(u)
					}
					sd, e := app.StakingKeeper.GetDelegation(ctx, u, v)
					if e != nil {
						return nil
					}
					sv, _ := app.StakingKeeper.GetValidator(ctx, v)
					amt := sv.TokensFromShares(sd.Shares).TruncateInt()
					if r.Intn(2) == 0 && amt.GT(math.OneInt()) {
						amt = amt.QuoRaw(int64(2 + r.Intn(5)))
					}
					if !amt.IsPositive() {
						return nil
					}
					_, err = sms.Undelegate(ctx, stakingtypes.NewMsgUndelegate(u.String(), v.String(), sdk.NewCoin(bondDenom, amt)))
				case 10:
					u, v := randUser(), randVal()
					sd, e := app.StakingKeeper.GetDelegation(ctx, u, v)
					if e != nil {
						return nil
					}
					sv, _ := app.StakingKeeper.GetValidator(ctx, v)
					amt := sv.TokensFromShares(sd.Shares).TruncateInt()
					if !amt.IsPositive() {
						return nil
					}
					_, err = sms.BeginRedelegate(ctx, stakingtypes.NewMsgBeginRedelegate(u.String(), v.String(), randVal().String(), sdk.NewCoin(bondDenom, amt)))
				case 11:
					// governance: update an alliance (weights 0..3, decay rates <= 1 to stay clear of the known overflow)
					d := randDenom()
					w := math.LegacyNewDecWithPrec(int64(r.Intn(300)), 2)
					if r.Intn(4) == 0 {
						w = math.LegacyZeroDec()
					}
					rate := math.LegacyOneDec()
					interval := time.Duration(0)
					if r.Intn(2) == 0 {
						rate = math.LegacyNewDecWithPrec(int64(1+r.Intn(100)), 2)
						interval = time.Duration(1+r.Intn(300)) * time.Second
					}
					_, err = ams.UpdateAlliance(ctx, &types.MsgUpdateAlliance{
						Authority: authority, Denom: d, RewardWeight: w,
						TakeRate:             math.LegacyNewDecWithPrec(int64(r.Intn(100)), 2),
						RewardChangeRate:     rate,
						RewardChangeInterval: interval,
						RewardWeightRange:    types.RewardWeightRange{Min: math.LegacyZeroDec(), Max: math.LegacyNewDec(10)},
					})
				case 12:
					// unjail
					v, e := app.StakingKeeper.GetValidator(ctx, randVal())
					if e != nil || !v.Jailed {
						return nil
					}
					cons, _ := v.GetConsAddr()
					err = app.StakingKeeper.Unjail(ctx, cons)
				case 13:
					p, _ := app.StakingKeeper.GetParams(ctx)
					p.MaxValidators = uint32(1 + r.Intn(6))
					if r.Intn(2) == 0 {
						p.UnbondingTime = time.Duration(1+r.Intn(20)) * time.Minute
					}
					err = app.StakingKeeper.SetParams(ctx, p)
				case 14:
					d := randDenom()
					if r.Intn(2) == 0 {
						_, err = ams.DeleteAlliance(ctx, &types.MsgDeleteAlliance{Authority: authority, Denom: d})
					} else {
						_, err = ams.CreateAlliance(ctx, &types.MsgCreateAlliance{
							Authority: authority, Denom: d,
							RewardWeight:         math.LegacyNewDecWithPrec(int64(r.Intn(300)), 2),
							TakeRate:             math.LegacyNewDecWithPrec(int64(r.Intn(100)), 2),
							RewardChangeRate:     math.LegacyOneDec(),
							RewardChangeInterval: 0,
							RewardWeightRange:    types.RewardWeightRange{Min: math.LegacyZeroDec(), Max: math.LegacyNewDec(10)},
						})
					}
				case 15:
					_, err = ams.UpdateParams(ctx, &types.MsgUpdateParams{Authority: authority, Params: types.Params{
						RewardDelayTime:       time.Duration(r.Intn(300)) * time.Second,
						TakeRateClaimInterval: time.Duration(1+r.Intn(300)) * time.Second,
						LastTakeRateClaimTime: app.AllianceKeeper.LastRewardClaimTime(ctx),
					}})
				}
				return err
			})
			stats[op][0]++
			if opErr != nil {
				stats[op][1]++
				if os.Getenv("HUNT_VERBOSE") != "" {
					t.Logf("op %d failed: %v", op, opErr)
				}
			}
		}

		err = huntEndBlock(app, ctx)
		require.NoError(t, err, "seed %d block %d (height %d): the end blocker must not fail", seed, block, height)
	}
}

type huntChain struct {
	t      *testing.T
	app    *test_helpers.App
	ctx    sdk.Context
	height int64
	now    time.Time
}

// nextBlock starts a new block (height + 1, time + d)
func (c *huntChain) nextBlock(d time.Duration) {
	c.height++
	c.now = c.now.Add(d)
	c.ctx = c.ctx.WithBlockHeight(c.height).WithBlockTime(c.now)
}

// endBlock runs x/staking's end blocker and then the alliance end blocker, the order of the app
func (c *huntChain) endBlock() error {
	return huntEndBlock(c.app, c.ctx)
}

// downtimeSlash lets the validator miss blocks until x/slashing slashes and jails it (HandleValidatorSignature is
// what x/slashing's begin blocker calls for every vote of the last commit), then waits for the jail time and
// unjails it with MsgUnjail. Every block is closed with the end blockers.
func (c *huntChain) downtimeSlash(pk cryptotypes.PubKey, valAddr sdk.ValAddress) {
	t := c.t
	for i := 0; ; i++ {
		require.Less(t, i, 1000)
		c.nextBlock(12 * time.Second)
		val, err := c.app.StakingKeeper.GetValidator(c.ctx, valAddr)
		require.NoError(t, err)
		require.True(t, val.IsBonded())
		power := val.ConsensusPower(c.app.StakingKeeper.PowerReduction(c.ctx))
		require.NoError(t, c.app.SlashingKeeper.HandleValidatorSignature(c.ctx, pk.Address(), power, comet.BlockIDFlagAbsent))
		require.NoError(t, c.endBlock())
		val, err = c.app.StakingKeeper.GetValidator(c.ctx, valAddr)
		require.NoError(t, err)
		if val.Jailed {
			break
		}
	}
	c.nextBlock(11 * time.Minute)
	_, err := slashingkeeper.NewMsgServerImpl(c.app.SlashingKeeper).Unjail(c.ctx, slashingtypes.NewMsgUnjail(valAddr.String()))
	require.NoError(t, err)
	require.NoError(t, c.endBlock())
	val, err := c.app.StakingKeeper.GetValidator(c.ctx, valAddr)
	require.NoError(t, err)
	require.True(t, val.IsBonded())
}

// C17: the end blocker completes without error in every reachable state.
// A validator that lost more than half of its stake to slashing has a share/token exchange rate above 2. When all
// alliance stake leaves such a validator, the rebalance has to unbond the module's whole delegation and x/staking
// rejects the amount the rebalance computed: the end blocker returns an error.
func TestHuntRebalanceFullUnbondRejected(t *testing.T) {
	// x/slashing with a downtime slash of 10% and a window of 10 blocks: 11 slashes
	huntRebalanceFullUnbond(t, "0.10", 10)
}

// the same with the default x/slashing parameters (1% per downtime slash, window of 100 blocks): 92 slashes
func TestHuntRebalanceFullUnbondRejectedDefaultSlashing(t *testing.T) {
	huntRebalanceFullUnbond(t, "0.01", 100)
}

func huntRebalanceFullUnbond(t *testing.T, slashFraction string, window int64) {
	app, _ := createTestContext(t)
	c := &huntChain{t: t, app: app, height: 10, now: time.Date(2026, 1, 1, 0, 0, 0, 0, time.UTC)}
	c.ctx = app.BaseApp.NewContext(false).WithBlockHeight(c.height).WithBlockTime(c.now)
	authority := authtypes.NewModuleAddress(govtypes.ModuleName).String()
	ams := keeper.NewMsgServerImpl(app.AllianceKeeper)
	sms := stakingkeeper.NewMsgServerImpl(app.StakingKeeper)

	params := types.DefaultParams()
	params.RewardDelayTime = time.Minute
	app.AllianceKeeper.InitGenesis(c.ctx, &types.GenesisState{Params: params})
	bondDenom, err := app.StakingKeeper.BondDenom(c.ctx)
	require.NoError(t, err)

	slParams, err := app.SlashingKeeper.GetParams(c.ctx)
	require.NoError(t, err)
	slParams.SlashFractionDowntime = math.LegacyMustNewDecFromStr(slashFraction)
	slParams.SignedBlocksWindow = window
	require.NoError(t, app.SlashingKeeper.SetParams(c.ctx, slParams))

	addrs := test_helpers.AddTestAddrsIncremental(app, c.ctx, 4, sdk.NewCoins(
		sdk.NewCoin(bondDenom, math.NewInt(1_000_000_000_000)),
		sdk.NewCoin(AllianceDenom, math.NewInt(1_000_000_000_000)),
	))
	pks := test_helpers.CreateTestPubKeys(2)
	valV, valW := sdk.ValAddress(addrs[0]), sdk.ValAddress(addrs[1])
	user1, user2 := addrs[2], addrs[3]
	for i, self := range []int64{5_041_009, 20_000_000} {
		msg, err := stakingtypes.NewMsgCreateValidator(sdk.ValAddress(addrs[i]).String(), pks[i], sdk.NewCoin(bondDenom, math.NewInt(self)),
			stakingtypes.Description{Moniker: fmt.Sprintf("v%d", i)},
			stakingtypes.NewCommissionRates(math.LegacyZeroDec(), math.LegacyOneDec(), math.LegacyOneDec()), math.OneInt())
		require.NoError(t, err)
		_, err = sms.CreateValidator(c.ctx, msg)
		require.NoError(t, err)
	}
	require.NoError(t, c.endBlock())

	// validator V is slashed for downtime until it has lost more than 60% of its stake
	slashes := 0
	for {
		v, err := app.StakingKeeper.GetValidator(c.ctx, valV)
		require.NoError(t, err)
		rate := v.DelegatorShares.QuoInt(v.Tokens)
		if rate.GTE(math.LegacyMustNewDecFromStr("2.5")) {
			t.Logf("validator V after %d downtime slashes: tokens %s, shares %s, shares per token %s", slashes, v.Tokens, v.DelegatorShares, rate)
			break
		}
		c.downtimeSlash(pks[0], valV)
		slashes++
	}

	// governance creates an alliance
	c.nextBlock(12 * time.Second)
	_, err = ams.CreateAlliance(c.ctx, &types.MsgCreateAlliance{
		Authority: authority, Denom: AllianceDenom,
		RewardWeight: math.LegacyNewDecWithPrec(2, 2), TakeRate: math.LegacyZeroDec(),
		RewardChangeRate: math.LegacyOneDec(), RewardChangeInterval: 0,
		RewardWeightRange: types.RewardWeightRange{Min: math.LegacyZeroDec(), Max: math.LegacyNewDec(5)},
	})
	require.NoError(t, err)
	require.NoError(t, c.endBlock())
	c.nextBlock(2 * time.Minute)
	require.NoError(t, c.endBlock())

	base := c.ctx
	var failures []string
	for variant := int64(0); variant < 40; variant++ {
		c.ctx, _ = base.CacheContext()
		h, now := c.height, c.now

		// alliance stake on W and, in two steps, on V: the module follows with two delegations to V
		c.nextBlock(12 * time.Second)
		_, err = ams.Delegate(c.ctx, types.NewMsgDelegate(user1.String(), valW.String(), sdk.NewCoin(AllianceDenom, math.NewInt(3_000_000))))
		require.NoError(t, err)
		_, err = ams.Delegate(c.ctx, types.NewMsgDelegate(user1.String(), valV.String(), sdk.NewCoin(AllianceDenom, math.NewInt(1_000_000+variant*77_777))))
		require.NoError(t, err)
		require.NoError(t, c.endBlock())
		c.nextBlock(12 * time.Second)
		_, err = ams.Delegate(c.ctx, types.NewMsgDelegate(user2.String(), valV.String(), sdk.NewCoin(AllianceDenom, math.NewInt(2_000_000+variant*131_313))))
		require.NoError(t, err)
		require.NoError(t, c.endBlock())

		c.nextBlock(12 * time.Second)
		_, err = ams.Delegate(c.ctx, types.NewMsgDelegate(user1.String(), valV.String(), sdk.NewCoin(AllianceDenom, math.NewInt(1_500_000+variant*33_333))))
		require.NoError(t, err)
		require.NoError(t, c.endBlock())

		moduleAddr := app.AccountKeeper.GetModuleAddress(types.ModuleName)
		del, err := app.StakingKeeper.GetDelegation(c.ctx, moduleAddr, valV)
		require.NoError(t, err)
		v, _ := app.StakingKeeper.GetValidator(c.ctx, valV)

		// everybody leaves V
		c.nextBlock(12 * time.Second)
		_, err = ams.Undelegate(c.ctx, types.NewMsgUndelegate(user1.String(), valV.String(), sdk.NewCoin(AllianceDenom, math.NewInt(2_500_000+variant*111_110))))
		require.NoError(t, err)
		_, err = ams.Undelegate(c.ctx, types.NewMsgUndelegate(user2.String(), valV.String(), sdk.NewCoin(AllianceDenom, math.NewInt(2_000_000+variant*131_313))))
		require.NoError(t, err)
		failed, _ := c.ctx.CacheContext()
		err = huntEndBlock(app, failed)
		if err != nil {
			// the block cannot be produced, nothing is committed: the same block fails again, also at a later time
			retry, _ := c.ctx.CacheContext()
			require.Error(t, huntEndBlock(app, retry.WithBlockTime(c.now.Add(time.Hour))))
		} else {
			require.NoError(t, c.endBlock())
		}
		st, _ := v.SharesFromTokensTruncated(v.TokensFromShares(del.Shares).TruncateInt())
		after, aerr := app.StakingKeeper.GetDelegation(c.ctx, moduleAddr, valV)
		if err != nil {
			t.Logf("variant %d: module shares on V %s, value %s, shares needed for that value (truncated) %s; delegation afterwards: %v %v; end blocker: %v", variant, del.Shares, v.TokensFromShares(del.Shares), st, after.Shares, aerr, err)
			failures = append(failures, fmt.Sprintf("variant %d: module shares on V %s, value %s: %v", variant, del.Shares, v.TokensFromShares(del.Shares), err))
		}
		c.height, c.now = h, now
	}
	require.Empty(t, failures, "the end blocker must complete without error when the alliance stake leaves a validator")
}

// pure arithmetic search: is there a sequence of integer delegations / slashes after which a full unbond of the
// module's position (amount = trunc(TokensFromShares(x))) is rejected by ValidateUnbondAmount's check
func TestHuntSearchUnbond(t *testing.T) {
	r := rand.New(rand.NewSource(7))
	found := 0
	for iter := 0; iter < 3_000_000 && found < 5; iter++ {
		T0 := int64(1_000_000 + r.Intn(5_000_000))
		v := stakingtypes.Validator{Tokens: math.NewInt(T0), DelegatorShares: math.LegacyNewDec(T0)}
		x := math.LegacyZeroDec()
		trace := []int64{T0}
		steps := 2 + r.Intn(5)
		for s := 0; s < steps; s++ {
			switch r.Intn(3) {
			case 0: // module delegates
				a := int64(1 + r.Intn(3_000_000))
				var sh math.LegacyDec
				v, sh = v.AddTokensFromDel(math.NewInt(a))
				x = x.Add(sh)
				trace = append(trace, 1, a)
			case 1: // third party delegates
				a := int64(1 + r.Intn(3_000_000))
				v, _ = v.AddTokensFromDel(math.NewInt(a))
				trace = append(trace, 2, a)
			case 2: // slash
				fr := []string{"0.5", "0.6", "0.75", "0.9", "0.666666666666666667", "0.01", "0.05"}[r.Intn(7)]
				power := v.Tokens.QuoRaw(1_000_000).MulRaw(1_000_000)
				burn := math.LegacyMustNewDecFromStr(fr).MulInt(power).TruncateInt()
				if burn.GTE(v.Tokens) {
					continue
				}
				v = v.RemoveTokens(burn)
				trace = append(trace, 3, int64(r.Intn(7)))
			}
		}
		if !x.IsPositive() || v.Tokens.IsZero() {
			continue
		}
		cur := v.TokensFromShares(x)
		u := cur.TruncateInt()
		if !u.IsPositive() {
			continue
		}
		st, _ := v.SharesFromTokensTruncated(u)
		if st.GT(x) {
			found++
			t.Logf("FOUND: tokens=%s shares=%s x=%s cur=%s u=%s sharesTruncated=%s trace=%v", v.Tokens, v.DelegatorShares, x, cur, u, st, trace)
		}
	}
	t.Logf("found %d", found)
}
