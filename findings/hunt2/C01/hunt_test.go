package tests_test

import (
	"fmt"
	"math/rand"
	"os"
	"strconv"
	"testing"
	"time"

	"cosmossdk.io/math"
	abcitypes "github.com/cometbft/cometbft/abci/types"
	cryptotypes "github.com/cosmos/cosmos-sdk/crypto/types"
	sdk "github.com/cosmos/cosmos-sdk/types"
	stakingkeeper "github.com/cosmos/cosmos-sdk/x/staking/keeper"
	stakingtypes "github.com/cosmos/cosmos-sdk/x/staking/types"
	"github.com/stretchr/testify/require"

	test_helpers "github.com/terra-money/alliance/app"
	"github.com/terra-money/alliance/x/alliance"
	"github.com/terra-money/alliance/x/alliance/keeper"
	"github.com/terra-money/alliance/x/alliance/types"
)

// huntCustody states clause C01: for every alliance asset, module balance == TotalTokens + pending unbondings
func huntCustody(app *test_helpers.App, ctx sdk.Context) error {
	moduleAddr := app.AccountKeeper.GetModuleAddress(types.ModuleName)
	unb := map[string]math.Int{}
	app.AllianceKeeper.IterateUndelegations(ctx, func(u types.QueuedUndelegation, _ time.Time) bool {
		for _, e := range u.Entries {
			if _, ok := unb[e.Balance.Denom]; !ok {
				unb[e.Balance.Denom] = math.ZeroInt()
			}
			unb[e.Balance.Denom] = unb[e.Balance.Denom].Add(e.Balance.Amount)
		}
		return false
	})
	for _, a := range app.AllianceKeeper.GetAllAssets(ctx) {
		bal := app.BankKeeper.GetBalance(ctx, moduleAddr, a.Denom).Amount
		u, ok := unb[a.Denom]
		if !ok {
			u = math.ZeroInt()
		}
		if !bal.Equal(a.TotalTokens.Add(u)) {
			return fmt.Errorf("custody of %s: balance %s != staked %s + unbonding %s", a.Denom, bal, a.TotalTokens, u)
		}
	}
	return nil
}

type huntEnv struct {
	t     *testing.T
	app   *test_helpers.App
	ctx   sdk.Context
	ms    types.MsgServer
	sms   stakingtypes.MsgServer
	dels  []sdk.AccAddress
	vals  []sdk.ValAddress
	pks   []cryptotypes.PubKey
	dens  []string
	r     *rand.Rand
	log   []string
	auth  string
	fatal error
}

// tx runs f on a branched context like a transaction: state is only written when f succeeds without panic
func (e *huntEnv) tx(name string, f func(ctx sdk.Context) error) (err error) {
	cctx, write := e.ctx.CacheContext()
	defer func() {
		if r := recover(); r != nil {
			err = fmt.Errorf("panic: %v", r)
		}
		if err == nil {
			write()
			e.log = append(e.log, fmt.Sprintf("h=%d ok   %s", e.ctx.BlockHeight(), name))
		} else {
			e.log = append(e.log, fmt.Sprintf("h=%d FAIL %s: %v", e.ctx.BlockHeight(), name, err))
		}
	}()
	return f(cctx)
}

func (e *huntEnv) beginBlock(slashIdx int, fraction math.LegacyDec, jail bool) {
	e.ctx = e.ctx.WithBlockHeight(e.ctx.BlockHeight() + 1).WithBlockTime(e.ctx.BlockTime().Add(time.Second * 5))
	app, ctx := e.app, e.ctx
	// distribution begin blocker
	var votes []abcitypes.VoteInfo
	total := int64(0)
	bonded, err := app.StakingKeeper.GetBondedValidatorsByPower(ctx)
	require.NoError(e.t, err)
	for _, v := range bonded {
		cons, _ := v.GetConsAddr()
		p := v.ConsensusPower(app.StakingKeeper.PowerReduction(ctx))
		total += p
		votes = append(votes, abcitypes.VoteInfo{Validator: abcitypes.Validator{Address: cons, Power: p}})
	}
	if total > 0 {
		require.NoError(e.t, app.DistrKeeper.AllocateTokens(ctx, total, votes))
	}
	// slashing begin blocker (evidence / downtime), driven through the real x/slashing and x/staking keepers
	if slashIdx >= 0 {
		v, err := app.StakingKeeper.GetValidator(ctx, e.vals[slashIdx])
		if err == nil && !v.IsUnbonded() {
			cons, _ := v.GetConsAddr()
			p := v.ConsensusPower(app.StakingKeeper.PowerReduction(ctx))
			h := ctx.BlockHeight() - 1
			name := fmt.Sprintf("slash val%d fraction %s jail %v", slashIdx, fraction, jail)
			_ = e.tx(name, func(ctx sdk.Context) error {
				if err := app.SlashingKeeper.Slash(ctx, cons, fraction, p, h); err != nil {
					return err
				}
				if jail && !v.IsJailed() {
					return app.SlashingKeeper.Jail(ctx, cons)
				}
				return nil
			})
		}
	}
}

func (e *huntEnv) endBlock() {
	app := e.app
	err := e.tx("endblock", func(ctx sdk.Context) error {
		if _, err := app.StakingKeeper.EndBlocker(ctx); err != nil {
			return err
		}
		return alliance.EndBlocker(ctx, app.AllianceKeeper)
	})
	if err != nil {
		e.fatal = fmt.Errorf("end blocker failed (chain halt): %w", err)
	}
}

func (e *huntEnv) randDel() sdk.AccAddress { return e.dels[e.r.Intn(len(e.dels))] }
func (e *huntEnv) randVal() sdk.ValAddress { return e.vals[e.r.Intn(len(e.vals))] }
func (e *huntEnv) randDenom() string       { return e.dens[e.r.Intn(len(e.dens))] }

func (e *huntEnv) randAmount(max math.Int) math.Int {
	if !max.IsPositive() {
		return math.OneInt()
	}
	switch e.r.Intn(5) {
	case 0:
		return max
	case 1:
		return math.OneInt()
	case 2:
		if max.GT(math.OneInt()) {
			return max.SubRaw(1)
		}
		return max
	default:
		f := math.LegacyNewDecWithPrec(int64(e.r.Intn(1000)+1), 3)
		a := f.MulInt(max).TruncateInt()
		if !a.IsPositive() {
			a = math.OneInt()
		}
		return a
	}
}

func (e *huntEnv) delegationTokens(ctx sdk.Context, del sdk.AccAddress, val sdk.ValAddress, denom string) math.Int {
	d, found := e.app.AllianceKeeper.GetDelegation(ctx, del, val, denom)
	if !found {
		return math.ZeroInt()
	}
	v, err := e.app.AllianceKeeper.GetAllianceValidator(ctx, val)
	if err != nil {
		return math.ZeroInt()
	}
	a, found := e.app.AllianceKeeper.GetAssetByDenom(ctx, denom)
	if !found {
		return math.ZeroInt()
	}
	return types.GetDelegationTokens(d, v, a).Amount
}

func (e *huntEnv) randomOp() {
	app := e.app
	r := e.r
	switch op := r.Intn(100); {
	case op < 30:
		del, val, denom := e.randDel(), e.randVal(), e.randDenom()
		bal := app.BankKeeper.GetBalance(e.ctx, del, denom).Amount
		amt := e.randAmount(bal.QuoRaw(4))
		_ = e.tx(fmt.Sprintf("delegate %s->%s %s%s", del, val, amt, denom), func(ctx sdk.Context) error {
			_, err := e.ms.Delegate(ctx, &types.MsgDelegate{DelegatorAddress: del.String(), ValidatorAddress: val.String(), Amount: sdk.NewCoin(denom, amt)})
			return err
		})
	case op < 50:
		del, val, denom := e.randDel(), e.randVal(), e.randDenom()
		amt := e.randAmount(e.delegationTokens(e.ctx, del, val, denom))
		_ = e.tx(fmt.Sprintf("undelegate %s->%s %s%s", del, val, amt, denom), func(ctx sdk.Context) error {
			_, err := e.ms.Undelegate(ctx, &types.MsgUndelegate{DelegatorAddress: del.String(), ValidatorAddress: val.String(), Amount: sdk.NewCoin(denom, amt)})
			return err
		})
	case op < 65:
		del, src, dst, denom := e.randDel(), e.randVal(), e.randVal(), e.randDenom()
		amt := e.randAmount(e.delegationTokens(e.ctx, del, src, denom))
		_ = e.tx(fmt.Sprintf("redelegate %s %s->%s %s%s", del, src, dst, amt, denom), func(ctx sdk.Context) error {
			_, err := e.ms.Redelegate(ctx, &types.MsgRedelegate{DelegatorAddress: del.String(), ValidatorSrcAddress: src.String(), ValidatorDstAddress: dst.String(), Amount: sdk.NewCoin(denom, amt)})
			return err
		})
	case op < 75:
		del, val, denom := e.randDel(), e.randVal(), e.randDenom()
		_ = e.tx(fmt.Sprintf("claim %s->%s %s", del, val, denom), func(ctx sdk.Context) error {
			_, err := e.ms.ClaimDelegationRewards(ctx, &types.MsgClaimDelegationRewards{DelegatorAddress: del.String(), ValidatorAddress: val.String(), Denom: denom})
			return err
		})
	case op < 77 && os.Getenv("HUNT_DELETE") != "":
		denom := e.randDenom()
		if _, found := app.AllianceKeeper.GetAssetByDenom(e.ctx, denom); found {
			_ = e.tx(fmt.Sprintf("delete alliance %s", denom), func(ctx sdk.Context) error {
				_, err := e.ms.DeleteAlliance(ctx, &types.MsgDeleteAlliance{Authority: e.auth, Denom: denom})
				return err
			})
		} else {
			_ = e.tx(fmt.Sprintf("create alliance %s", denom), func(ctx sdk.Context) error {
				_, err := e.ms.CreateAlliance(ctx, &types.MsgCreateAlliance{
					Authority: e.auth, Denom: denom, RewardWeight: math.LegacyNewDecWithPrec(int64(r.Intn(100)), 2),
					TakeRate: math.LegacyNewDecWithPrec(int64(r.Intn(10)), 2), RewardChangeRate: math.LegacyOneDec(), RewardChangeInterval: 0,
					RewardWeightRange: types.RewardWeightRange{Min: math.LegacyZeroDec(), Max: math.LegacyNewDec(5)},
				})
				return err
			})
		}
	case op < 82:
		denom := e.randDenom()
		w := math.LegacyNewDecWithPrec(int64(r.Intn(3000)), 3)
		tr := math.LegacyNewDecWithPrec(int64(r.Intn(500)), 4)
		if r.Intn(3) == 0 {
			tr = math.LegacyZeroDec()
		}
		rate := math.LegacyNewDecWithPrec(int64(900+r.Intn(150)), 3)
		interval := time.Duration(r.Intn(4)) * 5 * time.Second
		_ = e.tx(fmt.Sprintf("update alliance %s w=%s tr=%s rate=%s int=%s", denom, w, tr, rate, interval), func(ctx sdk.Context) error {
			_, err := e.ms.UpdateAlliance(ctx, &types.MsgUpdateAlliance{
				Authority: e.auth, Denom: denom, RewardWeight: w, TakeRate: tr, RewardChangeRate: rate, RewardChangeInterval: interval,
				RewardWeightRange: types.RewardWeightRange{Min: math.LegacyZeroDec(), Max: math.LegacyNewDec(5)},
			})
			return err
		})
	case op < 86:
		// staking params through governance: active set size and unbonding time
		_ = e.tx("staking params", func(ctx sdk.Context) error {
			p, err := app.StakingKeeper.GetParams(ctx)
			if err != nil {
				return err
			}
			p.MaxValidators = uint32(1 + r.Intn(len(e.vals)+1))
			p.UnbondingTime = time.Duration(5+r.Intn(40)) * time.Second
			_, err = e.sms.UpdateParams(ctx, &stakingtypes.MsgUpdateParams{Authority: e.auth, Params: p})
			return err
		})
	case op < 92:
		// native delegation / undelegation
		del, val := e.randDel(), e.randVal()
		bd, _ := app.StakingKeeper.BondDenom(e.ctx)
		if r.Intn(2) == 0 {
			amt := e.randAmount(app.BankKeeper.GetBalance(e.ctx, del, bd).Amount.QuoRaw(4))
			_ = e.tx(fmt.Sprintf("native delegate %s->%s %s", del, val, amt), func(ctx sdk.Context) error {
				_, err := e.sms.Delegate(ctx, &stakingtypes.MsgDelegate{DelegatorAddress: del.String(), ValidatorAddress: val.String(), Amount: sdk.NewCoin(bd, amt)})
				return err
			})
		} else {
			_ = e.tx(fmt.Sprintf("native undelegate %s->%s", del, val), func(ctx sdk.Context) error {
				d, err := app.StakingKeeper.GetDelegation(ctx, del, val)
				if err != nil {
					return err
				}
				v, err := app.StakingKeeper.GetValidator(ctx, val)
				if err != nil {
					return err
				}
				amt := e.randAmount(v.TokensFromShares(d.Shares).TruncateInt())
				_, err = e.sms.Undelegate(ctx, &stakingtypes.MsgUndelegate{DelegatorAddress: del.String(), ValidatorAddress: val.String(), Amount: sdk.NewCoin(bd, amt)})
				return err
			})
		}
	case op < 96:
		// unjail
		val := e.randVal()
		_ = e.tx(fmt.Sprintf("unjail %s", val), func(ctx sdk.Context) error {
			v, err := app.StakingKeeper.GetValidator(ctx, val)
			if err != nil {
				return err
			}
			if !v.IsJailed() {
				return fmt.Errorf("not jailed")
			}
			cons, _ := v.GetConsAddr()
			return app.StakingKeeper.Unjail(ctx, cons)
		})
	default:
		// alliance params
		_ = e.tx("alliance params", func(ctx sdk.Context) error {
			p := app.AllianceKeeper.GetParams(ctx)
			p.TakeRateClaimInterval = time.Duration(1+r.Intn(20)) * time.Second
			// keep the clock (K11 is known)
			_, err := e.ms.UpdateParams(ctx, &types.MsgUpdateParams{Authority: e.auth, Params: p})
			return err
		})
	}
}

func huntSetup(t *testing.T, seed int64) *huntEnv {
	app, ctx := createTestContext(t)
	ctx = ctx.WithBlockTime(time.Date(2024, 1, 1, 0, 0, 0, 0, time.UTC)).WithBlockHeight(2)
	e := &huntEnv{t: t, app: app, r: rand.New(rand.NewSource(seed))}
	e.ms = keeper.NewMsgServerImpl(app.AllianceKeeper)
	e.sms = stakingkeeper.NewMsgServerImpl(app.StakingKeeper)
	e.auth = app.AllianceKeeper.GetAuthority()
	bondDenom, err := app.StakingKeeper.BondDenom(ctx)
	require.NoError(t, err)
	e.dens = []string{"aaa", "ibc/0123456789ABCDEF", "zzz"}

	coins := sdk.NewCoins(sdk.NewCoin(bondDenom, math.NewInt(1_000_000_000)))
	for _, d := range e.dens {
		coins = coins.Add(sdk.NewCoin(d, math.NewIntWithDecimal(1, 9+9*(len(coins)%3))))
	}
	addrs := test_helpers.AddTestAddrsIncremental(app, ctx, 7, coins)
	e.dels = addrs[3:]
	e.pks = test_helpers.CreateTestPubKeys(3)

	// genesis validator
	gvals, err := app.StakingKeeper.GetAllValidators(ctx)
	require.NoError(t, err)
	for _, v := range gvals {
		va, _ := sdk.ValAddressFromBech32(v.GetOperator())
		e.vals = append(e.vals, va)
	}
	// three more validators through the staking msg server
	for i := 0; i < 3; i++ {
		va := sdk.ValAddress(addrs[i])
		msg, err := stakingtypes.NewMsgCreateValidator(va.String(), e.pks[i], sdk.NewCoin(bondDenom, math.NewInt(int64(1_000_000*(i+1)))),
			stakingtypes.NewDescription("v"+strconv.Itoa(i), "", "", "", ""),
			stakingtypes.NewCommissionRates(math.LegacyNewDecWithPrec(int64(i*5), 2), math.LegacyOneDec(), math.LegacyOneDec()), math.OneInt())
		require.NoError(t, err)
		_, err = e.sms.CreateValidator(ctx, msg)
		require.NoError(t, err)
		e.vals = append(e.vals, va)
	}
	_, err = app.StakingKeeper.EndBlocker(ctx)
	require.NoError(t, err)

	_, err = e.ms.UpdateParams(ctx, &types.MsgUpdateParams{Authority: e.auth, Params: types.Params{
		RewardDelayTime: 20 * time.Second, TakeRateClaimInterval: 10 * time.Second, LastTakeRateClaimTime: ctx.BlockTime(),
	}})
	require.NoError(t, err)
	sp, err := app.StakingKeeper.GetParams(ctx)
	require.NoError(t, err)
	sp.UnbondingTime = 30 * time.Second
	require.NoError(t, app.StakingKeeper.SetParams(ctx, sp))

	for i, d := range e.dens {
		_, err = e.ms.CreateAlliance(ctx, &types.MsgCreateAlliance{
			Authority: e.auth, Denom: d, RewardWeight: math.LegacyNewDecWithPrec(int64(5+20*i), 2),
			TakeRate: math.LegacyNewDecWithPrec(int64(i), 2), RewardChangeRate: math.LegacyOneDec(), RewardChangeInterval: 0,
			RewardWeightRange: types.RewardWeightRange{Min: math.LegacyZeroDec(), Max: math.LegacyNewDec(5)},
		})
		require.NoError(t, err)
	}
	e.ctx = ctx
	return e
}

func TestHuntFuzzCustody(t *testing.T) {
	seeds := 20
	if s := os.Getenv("HUNT_SEEDS"); s != "" {
		seeds, _ = strconv.Atoi(s)
	}
	start := int64(1)
	if s := os.Getenv("HUNT_START"); s != "" {
		start, _ = strconv.ParseInt(s, 10, 64)
	}
	for seed := start; seed < start+int64(seeds); seed++ {
		e := huntSetup(t, seed)
		failed := false
		for b := 0; b < 120 && !failed && e.fatal == nil; b++ {
			slashIdx := -1
			fraction := math.LegacyNewDecWithPrec(int64(1+e.r.Intn(50)), 2)
			if e.r.Intn(12) == 0 {
				slashIdx = e.r.Intn(len(e.vals))
			}
			e.beginBlock(slashIdx, fraction, e.r.Intn(2) == 0)
			if err := huntCustody(e.app, e.ctx); err != nil {
				t.Errorf("seed %d block %d after begin block: %v", seed, e.ctx.BlockHeight(), err)
				failed = true
				break
			}
			n := e.r.Intn(6)
			for i := 0; i < n; i++ {
				e.randomOp()
				if err := huntCustody(e.app, e.ctx); err != nil {
					t.Errorf("seed %d block %d after op: %v\nlast: %s", seed, e.ctx.BlockHeight(), err, e.log[len(e.log)-1])
					failed = true
					break
				}
			}
			if failed {
				break
			}
			e.endBlock()
			if err := huntCustody(e.app, e.ctx); err != nil {
				t.Errorf("seed %d block %d after end block: %v", seed, e.ctx.BlockHeight(), err)
				failed = true
			}
		}
		if e.fatal != nil {
			t.Logf("seed %d: %v", seed, e.fatal)
		}
		if os.Getenv("HUNT_STATS") != "" {
			stats := map[string]int{}
			for _, l := range e.log {
				var h, st, name string
				fmt.Sscanf(l, "%s %s %s", &h, &st, &name)
				stats[st+" "+name]++
			}
			t.Logf("seed %d height %d stats %v", seed, e.ctx.BlockHeight(), stats)
		}
		if failed || (e.fatal != nil && os.Getenv("HUNT_VERBOSE") != "") {
			from := 0
			if len(e.log) > 60 {
				from = len(e.log) - 60
			}
			for _, l := range e.log[from:] {
				t.Log(l)
			}
		}
	}
}
