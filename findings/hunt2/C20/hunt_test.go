package tests_test

import (
	"testing"
	"time"

	"cosmossdk.io/math"
	sdk "github.com/cosmos/cosmos-sdk/types"
	teststaking "github.com/cosmos/cosmos-sdk/x/staking/testutil"
	stakingtypes "github.com/cosmos/cosmos-sdk/x/staking/types"
	"github.com/stretchr/testify/require"

	test_helpers "github.com/terra-money/alliance/app"
	"github.com/terra-money/alliance/x/alliance"
	"github.com/terra-money/alliance/x/alliance/keeper"
	"github.com/terra-money/alliance/x/alliance/types"
)

// C20: "the reported delegation balance is the amount the delegator can undelegate at that moment".
//
// Scenario (6-decimal amounts, default x/slashing parameters, everything through the msg servers, the real
// x/slashing -> x/staking -> alliance hook chain and the module's end blocker):
//  1. alliance created by governance, two validators, A stakes on val2, C stakes on val1
//  2. val1 double-signs (5% slash): a share of val1 is now worth less than one token
//  3. B delegates 597943 to val1 (gets a fractional number of shares)
//  4. val1 is slashed for downtime (1%)
//  5. AllianceDelegation reports B's balance; MsgUndelegate of exactly that balance is rejected
func TestHuntReportedBalanceNotUndelegatable(t *testing.T) {
	app, ctx := createTestContext(t)
	t0 := time.Date(2026, 1, 1, 0, 0, 0, 0, time.UTC)
	ctx = ctx.WithBlockTime(t0).WithBlockHeight(1)
	msgServer := keeper.NewMsgServerImpl(app.AllianceKeeper)
	queryServer := keeper.NewQueryServerImpl(app.AllianceKeeper)

	_, err := msgServer.CreateAlliance(ctx, &types.MsgCreateAlliance{
		Authority:            app.AllianceKeeper.GetAuthority(),
		Denom:                AllianceDenom,
		RewardWeight:         math.LegacyNewDecWithPrec(1, 1),
		RewardWeightRange:    types.RewardWeightRange{Min: math.LegacyZeroDec(), Max: math.LegacyNewDec(1)},
		TakeRate:             math.LegacyZeroDec(),
		RewardChangeRate:     math.LegacyOneDec(),
		RewardChangeInterval: 0,
	})
	require.NoError(t, err)

	delegations, err := app.StakingKeeper.GetAllDelegations(ctx)
	require.NoError(t, err)
	valAddr1, err := sdk.ValAddressFromBech32(delegations[0].ValidatorAddress)
	require.NoError(t, err)

	addrs := test_helpers.AddTestAddrsIncremental(app, ctx, 4, sdk.NewCoins(sdk.NewCoin(AllianceDenom, math.NewInt(1000_000_000))))
	a, b, c := addrs[0], addrs[1], addrs[2]
	pks := test_helpers.CreateTestPubKeys(1)
	valAddr2 := sdk.ValAddress(addrs[3])
	test_helpers.RegisterNewValidator(t, app, ctx, teststaking.NewValidator(t, valAddr2, pks[0]))

	// native stake on val1 so that it keeps consensus power after being slashed
	bondDenom, err := app.StakingKeeper.BondDenom(ctx)
	require.NoError(t, err)
	staker := test_helpers.AddTestAddrsIncremental(app, ctx, 5, sdk.NewCoins(sdk.NewCoin(bondDenom, math.NewInt(100_000_000))))[4]
	sv, err := app.StakingKeeper.GetValidator(ctx, valAddr1)
	require.NoError(t, err)
	_, err = app.StakingKeeper.Delegate(ctx, staker, math.NewInt(50_000_000), stakingtypes.Unbonded, sv, true)
	require.NoError(t, err)

	// after the reward delay
	ctx = ctx.WithBlockTime(t0.Add(8 * 24 * time.Hour)).WithBlockHeight(2)
	require.NoError(t, alliance.EndBlocker(ctx, app.AllianceKeeper))

	_, err = msgServer.Delegate(ctx, &types.MsgDelegate{DelegatorAddress: a.String(), ValidatorAddress: valAddr2.String(), Amount: sdk.NewCoin(AllianceDenom, math.NewInt(10_234_567))})
	require.NoError(t, err)
	_, err = msgServer.Delegate(ctx, &types.MsgDelegate{DelegatorAddress: c.String(), ValidatorAddress: valAddr1.String(), Amount: sdk.NewCoin(AllianceDenom, math.NewInt(5_432_109))})
	require.NoError(t, err)
	require.NoError(t, alliance.EndBlocker(ctx, app.AllianceKeeper))

	slash := func(ctx sdk.Context, fraction math.LegacyDec) {
		val1, err := app.StakingKeeper.GetValidator(ctx, valAddr1)
		require.NoError(t, err)
		consAddr, err := val1.GetConsAddr()
		require.NoError(t, err)
		power := val1.GetConsensusPower(app.StakingKeeper.PowerReduction(ctx))
		require.True(t, power > 0)
		require.NoError(t, app.SlashingKeeper.Slash(ctx, consAddr, fraction, power, ctx.BlockHeight()-1))
	}
	dsFraction, err := app.SlashingKeeper.SlashFractionDoubleSign(ctx)
	require.NoError(t, err)
	require.Equal(t, math.LegacyNewDecWithPrec(5, 2), dsFraction)
	dtFraction, err := app.SlashingKeeper.SlashFractionDowntime(ctx)
	require.NoError(t, err)
	require.Equal(t, math.LegacyNewDecWithPrec(1, 2), dtFraction)

	// 2. double sign
	ctx = ctx.WithBlockTime(ctx.BlockTime().Add(time.Minute)).WithBlockHeight(3)
	slash(ctx, dsFraction)
	require.NoError(t, alliance.EndBlocker(ctx, app.AllianceKeeper))

	// 3. B delegates
	ctx = ctx.WithBlockTime(ctx.BlockTime().Add(time.Minute)).WithBlockHeight(4)
	_, err = msgServer.Delegate(ctx, &types.MsgDelegate{DelegatorAddress: b.String(), ValidatorAddress: valAddr1.String(), Amount: sdk.NewCoin(AllianceDenom, math.NewInt(597_943))})
	require.NoError(t, err)
	require.NoError(t, alliance.EndBlocker(ctx, app.AllianceKeeper))

	// 4. downtime
	ctx = ctx.WithBlockTime(ctx.BlockTime().Add(5 * time.Minute)).WithBlockHeight(5)
	slash(ctx, dtFraction)
	require.NoError(t, alliance.EndBlocker(ctx, app.AllianceKeeper))

	// 5. the query and the message disagree
	ctx = ctx.WithBlockTime(ctx.BlockTime().Add(time.Minute)).WithBlockHeight(6)
	res, err := queryServer.AllianceDelegation(ctx, &types.QueryAllianceDelegationRequest{DelegatorAddr: b.String(), ValidatorAddr: valAddr1.String(), Denom: AllianceDenom})
	require.NoError(t, err)
	bal := res.Delegation.Balance
	{
		v, err := app.AllianceKeeper.GetAllianceValidator(ctx, valAddr1)
		require.NoError(t, err)
		as, _ := app.AllianceKeeper.GetAssetByDenom(ctx, AllianceDenom)
		exact := types.ConvertNewShareToDecToken(v.TotalTokensWithAsset(as), v.TotalDelegationSharesWithDenom(AllianceDenom), res.Delegation.Delegation.Shares)
		t.Logf("shares %s, value of the shares %s, reported balance %s, shares asked for that balance %s",
			res.Delegation.Delegation.Shares, exact, bal, types.GetDelegationSharesFromTokens(v, as, bal.Amount))
	}

	// the other delegation queries report the same figure
	byVal, err := queryServer.AlliancesDelegationByValidator(ctx, &types.QueryAlliancesDelegationByValidatorRequest{DelegatorAddr: b.String(), ValidatorAddr: valAddr1.String()})
	require.NoError(t, err)
	require.Len(t, byVal.Delegations, 1)
	require.Equal(t, bal, byVal.Delegations[0].Balance)

	// sanity: the position is there, one unit less can be undelegated
	cctx, _ := ctx.CacheContext()
	_, err = msgServer.Undelegate(cctx, &types.MsgUndelegate{DelegatorAddress: b.String(), ValidatorAddress: valAddr1.String(), Amount: bal.SubAmount(math.OneInt())})
	require.NoError(t, err)

	// the redelegation message validates the amount the same way
	cctx, _ = ctx.CacheContext()
	_, err = msgServer.Redelegate(cctx, &types.MsgRedelegate{DelegatorAddress: b.String(), ValidatorSrcAddress: valAddr1.String(), ValidatorDstAddress: valAddr2.String(), Amount: bal})
	t.Logf("MsgRedelegate of the reported balance: %v", err)

	// property: the reported balance can be undelegated at that moment
	_, err = msgServer.Undelegate(ctx, &types.MsgUndelegate{DelegatorAddress: b.String(), ValidatorAddress: valAddr1.String(), Amount: bal})
	require.NoError(t, err, "AllianceDelegation reports a balance of %s but MsgUndelegate of that amount is rejected", bal)
}
