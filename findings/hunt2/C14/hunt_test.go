package tests_test

import (
	"testing"
	"time"

	"cosmossdk.io/math"
	sdk "github.com/cosmos/cosmos-sdk/types"
	"github.com/stretchr/testify/require"

	test_helpers "github.com/terra-money/alliance/app"
	"github.com/terra-money/alliance/x/alliance"
	"github.com/terra-money/alliance/x/alliance/keeper"
	"github.com/terra-money/alliance/x/alliance/types"
)

// huntTakeRateSetup creates a chain with the given take rate interval and a reward delay of one hour, creates
// an alliance through the governance message (so it starts its warm-up) and delegates to it during the warm-up.
// It returns the reward start time of the asset.
func huntTakeRateSetup(t *testing.T, interval time.Duration) (*test_helpers.App, sdk.Context, time.Time, time.Time) {
	app, ctx := createTestContext(t)
	t0 := time.Date(2026, 1, 1, 0, 0, 0, 0, time.UTC)
	ctx = ctx.WithBlockTime(t0).WithBlockHeight(1)
	app.AllianceKeeper.InitGenesis(ctx, &types.GenesisState{
		Params: types.Params{
			RewardDelayTime:       time.Hour,
			TakeRateClaimInterval: interval,
			LastTakeRateClaimTime: t0,
		},
	})

	ms := keeper.NewMsgServerImpl(app.AllianceKeeper)
	_, err := ms.CreateAlliance(ctx, &types.MsgCreateAlliance{
		Authority:            app.AllianceKeeper.GetAuthority(),
		Denom:                AllianceDenom,
		RewardWeight:         math.LegacyOneDec(),
		RewardWeightRange:    types.RewardWeightRange{Min: math.LegacyZeroDec(), Max: math.LegacyOneDec()},
		TakeRate:             math.LegacyMustNewDecFromStr("0.01"),
		RewardChangeRate:     math.LegacyOneDec(),
		RewardChangeInterval: 0,
	})
	require.NoError(t, err)
	asset, found := app.AllianceKeeper.GetAssetByDenom(ctx, AllianceDenom)
	require.True(t, found)
	require.Equal(t, t0.Add(time.Hour), asset.RewardStartTime)

	delegations, err := app.StakingKeeper.GetAllDelegations(ctx)
	require.NoError(t, err)
	addrs := test_helpers.AddTestAddrsIncremental(app, ctx, 1, sdk.NewCoins(sdk.NewCoin(AllianceDenom, math.NewInt(1_000_000_000))))
	_, err = ms.Delegate(ctx, &types.MsgDelegate{
		DelegatorAddress: addrs[0].String(),
		ValidatorAddress: delegations[0].ValidatorAddress,
		Amount:           sdk.NewCoin(AllianceDenom, math.NewInt(1_000_000_000)),
	})
	require.NoError(t, err)
	return app, ctx, t0, asset.RewardStartTime
}

// allowedCharge is the most the asset may have lost at `now`: the take rate of the whole intervals that elapsed
// since its reward start time (the clause: before its reward start time an asset is not charged the take rate)
func allowedCharge(total math.Int, takeRate math.LegacyDec, interval time.Duration, start time.Time, now time.Time) math.Int {
	n := uint64(0)
	if now.After(start) {
		n = uint64(now.Sub(start) / interval)
	}
	left := math.LegacyOneDec().Sub(takeRate).Power(n).MulInt(total).TruncateInt()
	return total.Sub(left)
}

// Regular one minute blocks, default five minute take rate interval, no block gap. At the very block in which the
// asset starts (block time == reward start time) it is charged a full interval that lies entirely in its warm-up.
func TestHuntTakeRateChargedForIntervalBeforeRewardStart(t *testing.T) {
	interval := 5 * time.Minute
	app, ctx, t0, start := huntTakeRateSetup(t, interval)
	total := math.NewInt(1_000_000_000)
	takeRate := math.LegacyMustNewDecFromStr("0.01")

	for minute := 1; minute <= 60; minute++ {
		now := t0.Add(time.Duration(minute) * time.Minute)
		ctx = ctx.WithBlockTime(now).WithBlockHeight(int64(minute + 1))
		clockBefore := app.AllianceKeeper.LastRewardClaimTime(ctx)
		require.NoError(t, alliance.EndBlocker(ctx, app.AllianceKeeper))
		asset, _ := app.AllianceKeeper.GetAssetByDenom(ctx, AllianceDenom)
		charged := total.Sub(asset.TotalTokens)
		if now.Before(start) {
			require.True(t, charged.IsZero(), "charged %s during the warm-up at minute %d", charged, minute)
			continue
		}
		// now == start: the asset has been active for zero whole intervals
		allowed := allowedCharge(total, takeRate, interval, start, now)
		require.True(t, charged.LTE(allowed),
			"block time %s == reward start time %s: asset charged %s (allowed %s); the take rate clock stood at %s, the charged interval [%s, %s] lies entirely before the reward start time",
			now.Format(time.TimeOnly), start.Format(time.TimeOnly), charged, allowed,
			clockBefore.Format(time.TimeOnly), clockBefore.Format(time.TimeOnly), clockBefore.Add(interval).Format(time.TimeOnly))
	}
}

// Same with a block gap (chain halt) over the activation: every interval of the gap is charged to the asset although
// it only started one minute before the first block after the gap.
func TestHuntTakeRateChargedForBlockGapBeforeRewardStart(t *testing.T) {
	interval := 5 * time.Minute
	app, ctx, t0, start := huntTakeRateSetup(t, interval)
	total := math.NewInt(1_000_000_000)
	takeRate := math.LegacyMustNewDecFromStr("0.01")

	height := int64(1)
	for minute := 1; minute <= 40; minute++ {
		height++
		ctx = ctx.WithBlockTime(t0.Add(time.Duration(minute) * time.Minute)).WithBlockHeight(height)
		require.NoError(t, alliance.EndBlocker(ctx, app.AllianceKeeper))
	}
	asset, _ := app.AllianceKeeper.GetAssetByDenom(ctx, AllianceDenom)
	require.Equal(t, total, asset.TotalTokens)

	// the chain halts from minute 40 to minute 61, the asset starts at minute 60
	now := t0.Add(61 * time.Minute)
	ctx = ctx.WithBlockTime(now).WithBlockHeight(height + 1)
	clockBefore := app.AllianceKeeper.LastRewardClaimTime(ctx)
	require.NoError(t, alliance.EndBlocker(ctx, app.AllianceKeeper))
	asset, _ = app.AllianceKeeper.GetAssetByDenom(ctx, AllianceDenom)
	charged := total.Sub(asset.TotalTokens)
	// generous bound: even the one interval in which the start time falls
	oneInterval := takeRate.MulInt(total).TruncateInt()
	allowed := allowedCharge(total, takeRate, interval, start, now)
	require.True(t, charged.LTE(oneInterval),
		"asset started at %s, charged %s at %s (allowed since the start: %s, one whole interval: %s); take rate clock was %s",
		start.Format(time.TimeOnly), charged, now.Format(time.TimeOnly), allowed, oneInterval, clockBefore.Format(time.TimeOnly))
}
