package tests_test

import (
	"fmt"
	"math/rand"
	"os"
	"strconv"
	"testing"
	"time"

	"cosmossdk.io/math"
	abcitypes "github.com/cometbft/cometbft/abci/types"
	sdk "github.com/cosmos/cosmos-sdk/types"
	authtypes "github.com/cosmos/cosmos-sdk/x/auth/types"
	minttypes "github.com/cosmos/cosmos-sdk/x/mint/types"
	teststaking "github.com/cosmos/cosmos-sdk/x/staking/testutil"
	stakingtypes "github.com/cosmos/cosmos-sdk/x/staking/types"
	"github.com/stretchr/testify/require"

	test_helpers "github.com/terra-money/alliance/app"
	"github.com/terra-money/alliance/x/alliance"
	"github.com/terra-money/alliance/x/alliance/keeper"
	"github.com/terra-money/alliance/x/alliance/types"
)

func huntEnv(k, def string) string {
	if v := os.Getenv(k); v != "" {
		return v
	}
	return def
}

func huntEnvInt(k string, def int) int {
	if v := os.Getenv(k); v != "" {
		n, _ := strconv.Atoi(v)
		return n
	}
	return def
}

func huntDeficit(app *test_helpers.App, ctx sdk.Context) (string, bool) {
	cctx, _ := ctx.CacheContext()
	_ = app.AllianceKeeper.IterateAllianceValidatorInfo(cctx, func(valAddr sdk.ValAddress, _ types.AllianceValidatorInfo) bool {
		v, err := app.AllianceKeeper.GetAllianceValidator(cctx, valAddr)
		if err == nil {
			_, _ = app.AllianceKeeper.ClaimValidatorRewards(cctx, v)
		}
		return false
	})
	total := sdk.NewCoins()
	_ = app.AllianceKeeper.IterateDelegations(cctx, func(d types.Delegation) bool {
		va, _ := sdk.ValAddressFromBech32(d.ValidatorAddress)
		v, err := app.AllianceKeeper.GetAllianceValidator(cctx, va)
		if err != nil {
			return false
		}
		as, found := app.AllianceKeeper.GetAssetByDenom(cctx, d.Denom)
		if !found || !as.RewardsStarted(cctx.BlockTime()) {
			return false
		}
		c, _, err := app.AllianceKeeper.CalculateDelegationRewards(cctx, d, v, as)
		if err == nil {
			total = total.Add(c...)
		}
		return false
	})
	pool := app.BankKeeper.GetAllBalances(cctx, app.AccountKeeper.GetModuleAddress(types.RewardsPoolName))
	for _, c := range total {
		if c.Amount.GT(pool.AmountOf(c.Denom).AddRaw(20)) {
			return fmt.Sprintf("claimable %s > pool %s", total, pool), true
		}
	}
	return "", false
}

func huntSettleAll(app *test_helpers.App, ctx sdk.Context) {
	var ds []types.Delegation
	_ = app.AllianceKeeper.IterateDelegations(ctx, func(d types.Delegation) bool { ds = append(ds, d); return false })
	for _, d := range ds {
		va, _ := sdk.ValAddressFromBech32(d.ValidatorAddress)
		da, _ := sdk.AccAddressFromBech32(d.DelegatorAddress)
		v, err := app.AllianceKeeper.GetAllianceValidator(ctx, va)
		if err != nil {
			continue
		}
		_, _ = app.AllianceKeeper.ClaimDelegationRewards(ctx, da, v, d.Denom)
	}
}

// fuzz driver used to look for failing slash callbacks
func TestHuntFuzz(t *testing.T) {
	seeds := 30
	if s := os.Getenv("HUNT_SEEDS"); s != "" {
		seeds, _ = strconv.Atoi(s)
	}
	start := 1
	if s := os.Getenv("HUNT_START"); s != "" {
		start, _ = strconv.Atoi(s)
	}
	for seed := start; seed < start+seeds; seed++ {
		runFuzz(t, int64(seed))
	}
}

func runFuzz(t *testing.T, seed int64) {
	rng := rand.New(rand.NewSource(seed))
	app, ctx := createTestContext(t)
	startTime := time.Date(2024, 1, 1, 0, 0, 0, 0, time.UTC)
	ctx = ctx.WithBlockTime(startTime).WithBlockHeight(1)
	app.AllianceKeeper.InitGenesis(ctx, &types.GenesisState{
		Params: types.Params{RewardDelayTime: time.Hour * 24, TakeRateClaimInterval: time.Hour, LastTakeRateClaimTime: startTime},
		Assets: []types.AllianceAsset{
			types.NewAllianceAsset(AllianceDenom, math.LegacyNewDec(2), math.LegacyZeroDec(), math.LegacyNewDec(20), math.LegacyZeroDec(), startTime),
			types.NewAllianceAsset(AllianceDenomTwo, math.LegacyMustNewDecFromStr("0.3"), math.LegacyZeroDec(), math.LegacyNewDec(20), math.LegacyMustNewDecFromStr(huntEnv("HUNT_TAKE", "0")), startTime.Add(time.Hour*time.Duration(huntEnvInt("HUNT_WARM", 0)))),
		},
	})
	ms := keeper.NewMsgServerImpl(app.AllianceKeeper)
	denoms := []string{AllianceDenom, AllianceDenomTwo}

	nVal, nUser := 3, 4
	addrs := test_helpers.AddTestAddrsIncremental(app, ctx, nVal+nUser, sdk.NewCoins(
		sdk.NewCoin(AllianceDenom, math.NewInt(1_000_000_000)),
		sdk.NewCoin(AllianceDenomTwo, math.NewInt(1_000_000_000)),
		sdk.NewCoin("stake", math.NewInt(10_000_000)),
		sdk.NewCoin("zeta", math.NewInt(1_000_000_000)),
	))
	pks := test_helpers.CreateTestPubKeys(nVal)
	var valAddrs []sdk.ValAddress
	for i := 0; i < nVal; i++ {
		valAddr := sdk.ValAddress(addrs[i])
		v := teststaking.NewValidator(t, valAddr, pks[i])
		v.Commission = stakingtypes.NewCommission(math.LegacyMustNewDecFromStr("0.1"), math.LegacyOneDec(), math.LegacyOneDec())
		test_helpers.RegisterNewValidator(t, app, ctx, v)
		sv, err := app.StakingKeeper.GetValidator(ctx, valAddr)
		require.NoError(t, err)
		_, err = app.StakingKeeper.Delegate(ctx, addrs[i], math.NewInt(1_000_000), stakingtypes.Unbonded, sv, true)
		require.NoError(t, err)
		valAddrs = append(valAddrs, valAddr)
	}
	users := addrs[nVal:]
	var log []string
	logf := func(f string, a ...interface{}) { log = append(log, fmt.Sprintf(f, a...)) }
	fail := func(msg string) {
		for _, l := range log {
			t.Log(l)
		}
		t.Fatalf("seed %d: %s", seed, msg)
	}

	fractions := []string{"0.0001", "0.01", "0.05", "0.5", "0.999"}
	if m, bad := huntDeficit(app, ctx); bad {
		fail("deficit at start: " + m)
	}
	defer func() {
		if os.Getenv("HUNT_DUMP") != "" {
			for _, l := range log {
				t.Log(l)
			}
		}
	}()
	for block := 0; block < 60; block++ {
		if m, bad := huntDeficit(app, ctx); bad {
			fail("deficit after end block: " + m)
		}
		ctx = ctx.WithBlockHeight(ctx.BlockHeight() + 1).WithBlockTime(ctx.BlockTime().Add(time.Duration(rng.Intn(72)+1) * time.Hour))
		logf("--- block %d time %s", ctx.BlockHeight(), ctx.BlockTime())
		// begin block: rewards
		if rng.Intn(2) == 0 {
			amt := math.NewInt(int64(rng.Intn(5_000_000) + 1))
			require.NoError(t, app.BankKeeper.MintCoins(ctx, minttypes.ModuleName, sdk.NewCoins(sdk.NewCoin("stake", amt))))
			require.NoError(t, app.BankKeeper.SendCoinsFromModuleToModule(ctx, minttypes.ModuleName, authtypes.FeeCollectorName, sdk.NewCoins(sdk.NewCoin("stake", amt))))
			var votes []abcitypes.VoteInfo
			var total int64
			for _, va := range valAddrs {
				v, _ := app.StakingKeeper.GetValidator(ctx, va)
				cons, _ := v.GetConsAddr()
				p := v.GetConsensusPower(app.StakingKeeper.PowerReduction(ctx))
				if p == 0 {
					continue
				}
				votes = append(votes, abcitypes.VoteInfo{Validator: abcitypes.Validator{Address: cons, Power: p}})
				total += p
			}
			if total > 0 {
				require.NoError(t, app.DistrKeeper.AllocateTokens(ctx, total, votes))
			}
		}
		// begin block: slash
		if rng.Intn(4) == 0 {
			va := valAddrs[rng.Intn(nVal)]
			fr := math.LegacyMustNewDecFromStr(fractions[rng.Intn(len(fractions))])
			logf("slash %s %s", va, fr)
			if os.Getenv("HUNT_NOSETTLE") == "" { // settle all positions first so that the known unsettled-slash defect (K7) does not mask other failures
				huntSettleAll(app, ctx)
			}
			cctx, _ := ctx.CacheContext()
			func() {
				defer func() {
					if r := recover(); r != nil {
						fail(fmt.Sprintf("slash callback panicked: %v", r))
					}
				}()
				if err := app.AllianceKeeper.StakingHooks().BeforeValidatorSlashed(cctx, va, fr); err != nil {
					fail(fmt.Sprintf("slash callback failed: %v", err))
				}
			}()
			v, _ := app.StakingKeeper.GetValidator(ctx, va)
			cons, _ := v.GetConsAddr()
			p := v.GetConsensusPower(app.StakingKeeper.PowerReduction(ctx))
			if p > 0 {
				_, err := app.StakingKeeper.Slash(ctx, cons, ctx.BlockHeight()-1, p, fr)
				require.NoError(t, err)
				if os.Getenv("HUNT_JAIL") != "" && !v.IsJailed() {
					require.NoError(t, app.StakingKeeper.Jail(ctx, cons))
					logf("jailed")
				}
			}
		}
		if m, bad := huntDeficit(app, ctx); bad {
			fail("deficit after begin block: " + m)
		}
		if os.Getenv("HUNT_JAIL") != "" {
			// unjail / params
			for _, va := range valAddrs {
				v, _ := app.StakingKeeper.GetValidator(ctx, va)
				if v.IsJailed() && rng.Intn(4) == 0 {
					cons, _ := v.GetConsAddr()
					require.NoError(t, app.StakingKeeper.Unjail(ctx, cons))
					logf("unjail %s", va)
				}
			}
			if rng.Intn(6) == 0 {
				sp, _ := app.StakingKeeper.GetParams(ctx)
				sp.MaxValidators = uint32(rng.Intn(3) + 2)
				sp.UnbondingTime = time.Duration(rng.Intn(20)+1) * 24 * time.Hour
				require.NoError(t, app.StakingKeeper.SetParams(ctx, sp))
				logf("staking params max %d unbonding %s", sp.MaxValidators, sp.UnbondingTime)
			}
		}
		if os.Getenv("HUNT_GOV") != "" && rng.Intn(8) == 0 {
			cctx, write := ctx.CacheContext()
			if _, found := app.AllianceKeeper.GetAssetByDenom(ctx, "zeta"); !found {
				w := math.LegacyNewDecWithPrec(int64(rng.Intn(3)), 1)
				_, err := ms.CreateAlliance(cctx, &types.MsgCreateAlliance{Authority: app.AllianceKeeper.GetAuthority(), Denom: "zeta", RewardWeight: w, TakeRate: math.LegacyZeroDec(), RewardChangeRate: math.LegacyOneDec(), RewardChangeInterval: 0, RewardWeightRange: types.RewardWeightRange{Min: math.LegacyZeroDec(), Max: math.LegacyNewDec(20)}})
				logf("create zeta weight %s: %v", w, err)
				if err == nil {
					write()
					if len(denoms) == 2 {
						denoms = append(denoms, "zeta")
					}
				}
			} else {
				_, err := ms.DeleteAlliance(cctx, &types.MsgDeleteAlliance{Authority: app.AllianceKeeper.GetAuthority(), Denom: "zeta"})
				logf("delete zeta: %v", err)
				if err == nil {
					write()
				}
			}
		}
		// txs
		nOps := rng.Intn(6)
		for i := 0; i < nOps; i++ {
			u := users[rng.Intn(nUser)]
			va := valAddrs[rng.Intn(nVal)]
			vb := valAddrs[rng.Intn(nVal)]
			denom := denoms[rng.Intn(len(denoms))]
			cctx, write := ctx.CacheContext()
			var err error
			var desc string
			func() {
				defer func() {
					if r := recover(); r != nil {
						err = fmt.Errorf("panic: %v", r)
					}
				}()
				switch rng.Intn(10) {
				case 0, 1, 2:
					amt := math.NewInt(int64(rng.Intn(50_000_000) + 1))
					desc = fmt.Sprintf("delegate %s %s %s%s", u, va, amt, denom)
					_, err = ms.Delegate(cctx, &types.MsgDelegate{DelegatorAddress: u.String(), ValidatorAddress: va.String(), Amount: sdk.NewCoin(denom, amt)})
				case 3, 4:
					d, found := app.AllianceKeeper.GetDelegation(cctx, u, va, denom)
					if !found {
						return
					}
					av, _ := app.AllianceKeeper.GetAllianceValidator(cctx, va)
					as, _ := app.AllianceKeeper.GetAssetByDenom(cctx, denom)
					bal := types.GetDelegationTokens(d, av, as).Amount
					if !bal.IsPositive() {
						return
					}
					amt := bal
					if rng.Intn(3) > 0 {
						amt = math.NewInt(rng.Int63n(bal.Int64()) + 1)
					}
					desc = fmt.Sprintf("undelegate %s %s %s%s (bal %s)", u, va, amt, denom, bal)
					_, err = ms.Undelegate(cctx, &types.MsgUndelegate{DelegatorAddress: u.String(), ValidatorAddress: va.String(), Amount: sdk.NewCoin(denom, amt)})
				case 5, 6, 7:
					d, found := app.AllianceKeeper.GetDelegation(cctx, u, va, denom)
					if !found {
						return
					}
					av, _ := app.AllianceKeeper.GetAllianceValidator(cctx, va)
					as, _ := app.AllianceKeeper.GetAssetByDenom(cctx, denom)
					bal := types.GetDelegationTokens(d, av, as).Amount
					if !bal.IsPositive() {
						return
					}
					amt := bal
					if rng.Intn(3) > 0 {
						amt = math.NewInt(rng.Int63n(bal.Int64()) + 1)
					}
					desc = fmt.Sprintf("redelegate %s %s->%s %s%s (bal %s)", u, va, vb, amt, denom, bal)
					_, err = ms.Redelegate(cctx, &types.MsgRedelegate{DelegatorAddress: u.String(), ValidatorSrcAddress: va.String(), ValidatorDstAddress: vb.String(), Amount: sdk.NewCoin(denom, amt)})
				case 8:
					desc = fmt.Sprintf("claim %s %s %s", u, va, denom)
					_, err = ms.ClaimDelegationRewards(cctx, &types.MsgClaimDelegationRewards{DelegatorAddress: u.String(), ValidatorAddress: va.String(), Denom: denom})
				case 9:
					w := math.LegacyNewDecWithPrec(int64(rng.Intn(500)), 2)
					as, _ := app.AllianceKeeper.GetAssetByDenom(cctx, denom)
					desc = fmt.Sprintf("update %s weight %s", denom, w)
					_, err = ms.UpdateAlliance(cctx, &types.MsgUpdateAlliance{Authority: app.AllianceKeeper.GetAuthority(), Denom: denom, RewardWeight: w, TakeRate: as.TakeRate, RewardChangeRate: math.LegacyOneDec(), RewardChangeInterval: 0, RewardWeightRange: as.RewardWeightRange})
				}
			}()
			if desc == "" {
				continue
			}
			if err != nil {
				logf("tx FAILED %s: %v", desc, err)
			} else {
				logf("tx ok %s", desc)
				write()
				if m, bad := huntDeficit(app, ctx); bad {
					fail("deficit after tx: " + m)
				}
			}
		}
		// end block
		if os.Getenv("HUNT_JAIL") != "" {
			_, err := app.StakingKeeper.EndBlocker(ctx)
			if err != nil {
				fail("staking end blocker: " + err.Error())
			}
		}
		func() {
			defer func() {
				if r := recover(); r != nil {
					logf("END BLOCKER PANIC %v", r)
					fail(fmt.Sprintf("end blocker panicked: %v", r))
				}
			}()
			if err := alliance.EndBlocker(ctx, app.AllianceKeeper); err != nil {
				fail(fmt.Sprintf("end blocker failed: %v", err))
			}
		}()
	}
}
