package tests_test

import (
	"fmt"
	"math/rand"
	"os"
	"strconv"
	"strings"
	"testing"
	"time"

	"cosmossdk.io/math"
	abcitypes "github.com/cometbft/cometbft/abci/types"
	sdk "github.com/cosmos/cosmos-sdk/types"
	authtypes "github.com/cosmos/cosmos-sdk/x/auth/types"
	minttypes "github.com/cosmos/cosmos-sdk/x/mint/types"
	stakingkeeper "github.com/cosmos/cosmos-sdk/x/staking/keeper"
	stakingtypes "github.com/cosmos/cosmos-sdk/x/staking/types"
	"github.com/stretchr/testify/require"

	test_helpers "github.com/terra-money/alliance/app"
	"github.com/terra-money/alliance/x/alliance"
	"github.com/terra-money/alliance/x/alliance/keeper"
	"github.com/terra-money/alliance/x/alliance/types"
)

type huntEnv struct {
	t     *testing.T
	app   *test_helpers.App
	ctx   sdk.Context
	msg   types.MsgServer
	stk   stakingtypes.MsgServer
	vals  []sdk.ValAddress
	users []sdk.AccAddress
	rng   *rand.Rand
	auth  string
	log   []string
}

func (e *huntEnv) logf(f string, a ...interface{}) {
	e.log = append(e.log, fmt.Sprintf("[h%d] ", e.ctx.BlockHeight())+fmt.Sprintf(f, a...))
}

func newHuntEnv(t *testing.T, seed int64, nVals int, nUsers int) *huntEnv {
	app, ctx := createTestContext(t)
	start := time.Date(2024, 1, 1, 0, 0, 0, 0, time.UTC)
	ctx = ctx.WithBlockTime(start).WithBlockHeight(2)
	e := &huntEnv{t: t, app: app, ctx: ctx, rng: rand.New(rand.NewSource(seed))}
	e.msg = keeper.NewMsgServerImpl(app.AllianceKeeper)
	e.stk = stakingkeeper.NewMsgServerImpl(app.StakingKeeper)
	e.auth = app.AllianceKeeper.GetAuthority()

	distParams, err := app.DistrKeeper.Params.Get(ctx)
	require.NoError(t, err)
	distParams.CommunityTax = math.LegacyZeroDec()
	require.NoError(t, app.DistrKeeper.Params.Set(ctx, distParams))

	addrs := test_helpers.AddTestAddrsIncremental(app, ctx, nVals+nUsers, sdk.NewCoins(
		sdk.NewCoin(AllianceDenom, math.NewInt(1_000_000_000_000)),
		sdk.NewCoin(AllianceDenomTwo, math.NewInt(1_000_000_000_000)),
		sdk.NewCoin("alliance3", math.NewInt(1_000_000_000_000)),
		sdk.NewCoin("stake", math.NewInt(1_000_000_000_000)),
	))
	pks := test_helpers.CreateTestPubKeys(nVals)
	for i := 0; i < nVals; i++ {
		valAddr := sdk.ValAddress(addrs[i])
		rate := math.LegacyNewDecWithPrec(int64(e.rng.Intn(20)), 2)
		m, err := stakingtypes.NewMsgCreateValidator(valAddr.String(), pks[i],
			sdk.NewCoin("stake", math.NewInt(int64(2_000_000+e.rng.Intn(3_000_000)))),
			stakingtypes.Description{Moniker: fmt.Sprintf("v%d", i)},
			stakingtypes.NewCommissionRates(rate, math.LegacyOneDec(), math.LegacyOneDec()), math.OneInt())
		require.NoError(t, err)
		_, err = e.stk.CreateValidator(ctx, m)
		require.NoError(t, err)
		e.vals = append(e.vals, valAddr)
	}
	e.users = addrs[nVals:]
	return e
}

func (e *huntEnv) endBlock() {
	_, err := e.app.StakingKeeper.EndBlocker(e.ctx)
	require.NoError(e.t, err)
	err = alliance.EndBlocker(e.ctx, e.app.AllianceKeeper)
	require.NoError(e.t, err, "alliance end blocker")
}

func (e *huntEnv) nextBlock(dt time.Duration) {
	e.ctx = e.ctx.WithBlockHeight(e.ctx.BlockHeight() + 1).WithBlockTime(e.ctx.BlockTime().Add(dt))
}

// beginBlock distributes fees like x/distribution's begin blocker does
func (e *huntEnv) beginBlock() {
	coins := sdk.NewCoins(
		sdk.NewCoin("stake", math.NewInt(int64(1+e.rng.Intn(5_000_000)))),
		sdk.NewCoin("uusd", math.NewInt(int64(1+e.rng.Intn(9_000_000)))),
	)
	require.NoError(e.t, e.app.BankKeeper.MintCoins(e.ctx, minttypes.ModuleName, coins))
	require.NoError(e.t, e.app.BankKeeper.SendCoinsFromModuleToModule(e.ctx, minttypes.ModuleName, authtypes.FeeCollectorName, coins))
	var votes []abcitypes.VoteInfo
	total := int64(0)
	vals, err := e.app.StakingKeeper.GetBondedValidatorsByPower(e.ctx)
	require.NoError(e.t, err)
	for _, v := range vals {
		cons, _ := v.GetConsAddr()
		p := v.GetConsensusPower(e.app.StakingKeeper.PowerReduction(e.ctx))
		if p == 0 {
			continue
		}
		votes = append(votes, abcitypes.VoteInfo{Validator: abcitypes.Validator{Address: cons, Power: p}})
		total += p
	}
	require.NoError(e.t, e.app.DistrKeeper.AllocateTokens(e.ctx, total, votes))
}

func (e *huntEnv) denoms() []string {
	var ds []string
	for _, a := range e.app.AllianceKeeper.GetAllAssets(e.ctx) {
		ds = append(ds, a.Denom)
	}
	return ds
}

func safely(f func() error) (err error) {
	defer func() {
		if r := recover(); r != nil {
			err = fmt.Errorf("PANIC: %v", r)
		}
	}()
	return f()
}

// checkLiveness states the clauses of C05 on a branch of the state
func (e *huntEnv) checkLiveness() (failures []string) {
	k := e.app.AllianceKeeper
	var dels []types.Delegation
	_ = k.IterateDelegations(e.ctx, func(d types.Delegation) bool { dels = append(dels, d); return false })
	for _, d := range dels {
		valAddr, _ := sdk.ValAddressFromBech32(d.ValidatorAddress)
		val, err := k.GetAllianceValidator(e.ctx, valAddr)
		if err != nil {
			failures = append(failures, fmt.Sprintf("validator of %v gone: %v", d, err))
			continue
		}
		asset, found := k.GetAssetByDenom(e.ctx, d.Denom)
		if !found {
			failures = append(failures, fmt.Sprintf("asset of %v gone", d))
			continue
		}
		bal := types.GetDelegationTokens(d, val, asset)
		if !bal.Amount.IsPositive() {
			continue
		}
		c1, _ := e.ctx.CacheContext()
		if err := safely(func() error {
			_, err := e.msg.ClaimDelegationRewards(c1, &types.MsgClaimDelegationRewards{DelegatorAddress: d.DelegatorAddress, ValidatorAddress: d.ValidatorAddress, Denom: d.Denom})
			return err
		}); err != nil {
			failures = append(failures, fmt.Sprintf("CLAIM %s %s %s bal=%s: %v", d.DelegatorAddress[len(d.DelegatorAddress)-4:], d.ValidatorAddress[len(d.ValidatorAddress)-4:], d.Denom, bal, err))
		}
		c2, _ := e.ctx.CacheContext()
		if err := safely(func() error {
			_, err := e.msg.Undelegate(c2, &types.MsgUndelegate{DelegatorAddress: d.DelegatorAddress, ValidatorAddress: d.ValidatorAddress, Amount: bal})
			return err
		}); err != nil {
			failures = append(failures, fmt.Sprintf("UNDELEGATE %s %s shares=%s bal=%s: %v", d.DelegatorAddress[len(d.DelegatorAddress)-4:], d.ValidatorAddress[len(d.ValidatorAddress)-4:], d.Shares, bal, err))
		}
	}
	// enter: any user, any validator, any asset
	for _, denom := range e.denoms() {
		for _, v := range e.vals {
			u := e.users[e.rng.Intn(len(e.users))]
			for _, amt := range []int64{1, 1_000_003} {
				c3, _ := e.ctx.CacheContext()
				if err := safely(func() error {
					_, err := e.msg.Delegate(c3, &types.MsgDelegate{DelegatorAddress: u.String(), ValidatorAddress: v.String(), Amount: sdk.NewCoin(denom, math.NewInt(amt))})
					return err
				}); err != nil {
					failures = append(failures, fmt.Sprintf("DELEGATE %d%s to %s: %v", amt, denom, v.String()[len(v.String())-4:], err))
				}
			}
		}
	}
	return failures
}

func (e *huntEnv) randomOps(withSlash bool) {
	k := e.app.AllianceKeeper
	n := 1 + e.rng.Intn(4)
	for i := 0; i < n; i++ {
		u := e.users[e.rng.Intn(len(e.users))]
		v := e.vals[e.rng.Intn(len(e.vals))]
		ds := e.denoms()
		if len(ds) == 0 {
			return
		}
		denom := ds[e.rng.Intn(len(ds))]
		switch op := e.rng.Intn(13); op {
		case 0, 1, 2:
			amt := math.NewInt(int64(1 + e.rng.Intn(50_000_000)))
			_, err := e.msg.Delegate(e.ctx, &types.MsgDelegate{DelegatorAddress: u.String(), ValidatorAddress: v.String(), Amount: sdk.NewCoin(denom, amt)})
			e.logf("delegate %s %s %s%s err=%v", u, v, amt, denom, err)
		case 3, 4:
			d, found := k.GetDelegation(e.ctx, u, v, denom)
			if !found {
				continue
			}
			val, _ := k.GetAllianceValidator(e.ctx, v)
			asset, _ := k.GetAssetByDenom(e.ctx, denom)
			bal := types.GetDelegationTokens(d, val, asset).Amount
			if !bal.IsPositive() {
				continue
			}
			amt := bal
			if e.rng.Intn(2) == 0 {
				amt = math.NewInt(1 + e.rng.Int63n(bal.Int64()))
			}
			_, err := e.msg.Undelegate(e.ctx, &types.MsgUndelegate{DelegatorAddress: u.String(), ValidatorAddress: v.String(), Amount: sdk.NewCoin(denom, amt)})
			e.logf("undelegate %s %s %s/%s%s err=%v", u, v, amt, bal, denom, err)
		case 5, 6:
			d, found := k.GetDelegation(e.ctx, u, v, denom)
			if !found {
				continue
			}
			v2 := e.vals[e.rng.Intn(len(e.vals))]
			val, _ := k.GetAllianceValidator(e.ctx, v)
			asset, _ := k.GetAssetByDenom(e.ctx, denom)
			bal := types.GetDelegationTokens(d, val, asset).Amount
			if !bal.IsPositive() {
				continue
			}
			amt := bal
			if e.rng.Intn(2) == 0 {
				amt = math.NewInt(1 + e.rng.Int63n(bal.Int64()))
			}
			_, err := e.msg.Redelegate(e.ctx, &types.MsgRedelegate{DelegatorAddress: u.String(), ValidatorSrcAddress: v.String(), ValidatorDstAddress: v2.String(), Amount: sdk.NewCoin(denom, amt)})
			e.logf("redelegate %s %s->%s %s/%s%s err=%v", u, v, v2, amt, bal, denom, err)
		case 7:
			_, err := e.msg.ClaimDelegationRewards(e.ctx, &types.MsgClaimDelegationRewards{DelegatorAddress: u.String(), ValidatorAddress: v.String(), Denom: denom})
			e.logf("claim %s %s %s err=%v", u, v, denom, err)
		case 8:
			// native delegation moves validators in and out of the active set
			amt := math.NewInt(int64(1 + e.rng.Intn(4_000_000)))
			_, err := e.stk.Delegate(e.ctx, &stakingtypes.MsgDelegate{DelegatorAddress: u.String(), ValidatorAddress: v.String(), Amount: sdk.NewCoin("stake", amt)})
			e.logf("native delegate %s %s %s err=%v", u, v, amt, err)
		case 9:
			del, err := e.app.StakingKeeper.GetDelegation(e.ctx, u, v)
			if err != nil {
				continue
			}
			sv, _ := e.app.StakingKeeper.GetValidator(e.ctx, v)
			tok := sv.TokensFromShares(del.Shares).TruncateInt()
			if !tok.IsPositive() {
				continue
			}
			_, err = e.stk.Undelegate(e.ctx, &stakingtypes.MsgUndelegate{DelegatorAddress: u.String(), ValidatorAddress: v.String(), Amount: sdk.NewCoin("stake", tok)})
			e.logf("native undelegate %s %s %s err=%v", u, v, tok, err)
		case 10:
			// governance: change weight / decay / take rate of an alliance
			asset, _ := k.GetAssetByDenom(e.ctx, denom)
			w := math.LegacyNewDecWithPrec(int64(e.rng.Intn(300)), 2)
			rate := math.LegacyNewDecWithPrec(int64(90+e.rng.Intn(20)), 2)
			_, err := e.msg.UpdateAlliance(e.ctx, &types.MsgUpdateAlliance{
				Authority: e.auth, Denom: denom, RewardWeight: w,
				RewardWeightRange:    types.RewardWeightRange{Min: math.LegacyZeroDec(), Max: math.LegacyNewDec(5)},
				TakeRate:             asset.TakeRate,
				RewardChangeRate:     rate,
				RewardChangeInterval: time.Duration(e.rng.Intn(3)) * time.Hour,
			})
			e.logf("update alliance %s w=%s rate=%s err=%v", denom, w, rate, err)
		case 11:
			// governance: staking params
			p, _ := e.app.StakingKeeper.GetParams(e.ctx)
			p.UnbondingTime = time.Duration(1+e.rng.Intn(72)) * time.Hour
			p.MaxValidators = uint32(2 + e.rng.Intn(len(e.vals)))
			_, err := e.stk.UpdateParams(e.ctx, &stakingtypes.MsgUpdateParams{Authority: authtypes.NewModuleAddress("gov").String(), Params: p})
			e.logf("staking params unbonding=%s max=%d err=%v", p.UnbondingTime, p.MaxValidators, err)
		case 12:
			if !withSlash {
				continue
			}
			sv, err := e.app.StakingKeeper.GetValidator(e.ctx, v)
			if err != nil || !sv.IsBonded() {
				continue
			}
			cons, _ := sv.GetConsAddr()
			power := sv.GetConsensusPower(e.app.StakingKeeper.PowerReduction(e.ctx))
			fr := math.LegacyNewDecWithPrec(int64(1+e.rng.Intn(10)), 2)
			err = e.app.SlashingKeeper.Slash(e.ctx, cons, fr, power, e.ctx.BlockHeight()-1)
			e.logf("slash %s %s err=%v", v, fr, err)
		}
	}
}

func runHunt(t *testing.T, seed int64, blocks int, withSlash bool, takeRate string) []string {
	e := newHuntEnv(t, seed, 4, 4)
	// params as governance would set them
	_, err := e.msg.UpdateParams(e.ctx, &types.MsgUpdateParams{Authority: e.auth, Params: types.Params{
		RewardDelayTime: 6 * time.Hour, TakeRateClaimInterval: time.Hour, LastTakeRateClaimTime: e.ctx.BlockTime(),
	}})
	require.NoError(t, err)
	mk := func(denom, w string, decayRate string, interval time.Duration) {
		_, err := e.msg.CreateAlliance(e.ctx, &types.MsgCreateAlliance{
			Authority: e.auth, Denom: denom, RewardWeight: math.LegacyMustNewDecFromStr(w),
			TakeRate:             math.LegacyMustNewDecFromStr(takeRate),
			RewardChangeRate:     math.LegacyMustNewDecFromStr(decayRate),
			RewardChangeInterval: interval,
			RewardWeightRange:    types.RewardWeightRange{Min: math.LegacyZeroDec(), Max: math.LegacyNewDec(5)},
		})
		require.NoError(t, err)
	}
	mk(AllianceDenom, "0.3", "1", 0)
	e.endBlock()
	for b := 0; b < blocks; b++ {
		e.nextBlock(time.Duration(1+e.rng.Intn(120)) * time.Minute)
		e.beginBlock()
		if b == 5 {
			mk(AllianceDenomTwo, "1.2", "0.99", time.Hour)
		}
		if b == 25 {
			mk("alliance3", "0", "1.01", 2*time.Hour)
		}
		e.randomOps(withSlash)
		if err := safely(func() error {
			if _, err := e.app.StakingKeeper.EndBlocker(e.ctx); err != nil {
				return err
			}
			return alliance.EndBlocker(e.ctx, e.app.AllianceKeeper)
		}); err != nil {
			return append(e.log, "ENDBLOCK FAILURE: "+err.Error())
		}
		f := e.checkLiveness()
		if os.Getenv("HUNT_IGNORE_FUNDS") != "" {
			var g []string
			for _, x := range f {
				if !strings.Contains(x, "insufficient funds") {
					g = append(g, x)
				}
			}
			f = g
		}
		if len(f) > 0 {
			out := append([]string{}, e.log...)
			out = append(out, fmt.Sprintf("LIVENESS FAILURES seed=%d block=%d:", seed, b))
			return append(out, f...)
		}
	}
	if os.Getenv("HUNT_DUMP") != "" {
		for _, l := range e.log {
			t.Log(l)
		}
	}
	return nil
}

func TestHuntRandom(t *testing.T) {
	seeds := 10
	if s := os.Getenv("HUNT_SEEDS"); s != "" {
		seeds, _ = strconv.Atoi(s)
	}
	first := int64(1)
	if s := os.Getenv("HUNT_FIRST"); s != "" {
		first, _ = strconv.ParseInt(s, 10, 64)
	}
	withSlash := os.Getenv("HUNT_SLASH") != ""
	takeRate := "0"
	if s := os.Getenv("HUNT_TAKERATE"); s != "" {
		takeRate = s
	}
	for seed := first; seed < first+int64(seeds); seed++ {
		out := runHunt(t, seed, 120, withSlash, takeRate)
		if out != nil {
			tail := out
			if len(tail) > 60 {
				tail = tail[len(tail)-60:]
			}
			for _, l := range tail {
				t.Log(l)
			}
			t.Fatalf("seed %d failed", seed)
		}
	}
}

// TestHuntRecreate: delete an emptied alliance, create it again, enter / claim / exit must work and pay sane amounts
func TestHuntRecreate(t *testing.T) {
	e := newHuntEnv(t, 7, 3, 3)
	_, err := e.msg.UpdateParams(e.ctx, &types.MsgUpdateParams{Authority: e.auth, Params: types.Params{
		RewardDelayTime: time.Hour, TakeRateClaimInterval: time.Hour, LastTakeRateClaimTime: e.ctx.BlockTime(),
	}})
	require.NoError(t, err)
	mk := func() {
		_, err := e.msg.CreateAlliance(e.ctx, &types.MsgCreateAlliance{
			Authority: e.auth, Denom: AllianceDenom, RewardWeight: math.LegacyMustNewDecFromStr("0.5"),
			TakeRate: math.LegacyZeroDec(), RewardChangeRate: math.LegacyOneDec(),
			RewardWeightRange: types.RewardWeightRange{Min: math.LegacyZeroDec(), Max: math.LegacyNewDec(5)},
		})
		require.NoError(t, err)
	}
	mk()
	e.endBlock()
	u, v := e.users[0], e.vals[0]
	step := func() {
		e.nextBlock(40 * time.Minute)
		e.beginBlock()
	}
	del := func(who sdk.AccAddress, amt int64) {
		_, err := e.msg.Delegate(e.ctx, &types.MsgDelegate{DelegatorAddress: who.String(), ValidatorAddress: v.String(), Amount: sdk.NewCoin(AllianceDenom, math.NewInt(amt))})
		require.NoError(t, err)
	}
	step()
	del(u, 5_000_000)
	e.endBlock()
	for i := 0; i < 5; i++ {
		step()
		e.endBlock()
	}
	_, err = e.msg.Undelegate(e.ctx, &types.MsgUndelegate{DelegatorAddress: u.String(), ValidatorAddress: v.String(), Amount: sdk.NewCoin(AllianceDenom, math.NewInt(5_000_000))})
	require.NoError(t, err)
	e.endBlock()
	step()
	_, err = e.msg.DeleteAlliance(e.ctx, &types.MsgDeleteAlliance{Authority: e.auth, Denom: AllianceDenom})
	require.NoError(t, err)
	e.endBlock()
	step()
	mk()
	del(e.users[1], 3_000_000)
	e.endBlock()
	for i := 0; i < 4; i++ {
		step()
		if i == 2 {
			del(e.users[2], 3_000_000)
		}
		e.endBlock()
		require.Empty(t, e.checkLiveness())
	}
	pool := e.app.BankKeeper.GetAllBalances(e.ctx, e.app.AccountKeeper.GetModuleAddress(types.RewardsPoolName))
	for _, who := range []sdk.AccAddress{e.users[1], e.users[2]} {
		before := e.app.BankKeeper.GetAllBalances(e.ctx, who)
		_, err = e.msg.ClaimDelegationRewards(e.ctx, &types.MsgClaimDelegationRewards{DelegatorAddress: who.String(), ValidatorAddress: v.String(), Denom: AllianceDenom})
		require.NoError(t, err)
		t.Log("claimed", e.app.BankKeeper.GetAllBalances(e.ctx, who).Sub(before...), "pool before", pool)
	}
}
