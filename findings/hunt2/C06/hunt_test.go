package tests_test

import (
	"fmt"
	"math/rand"
	"testing"
	"time"

	"cosmossdk.io/math"
	sdk "github.com/cosmos/cosmos-sdk/types"
	teststaking "github.com/cosmos/cosmos-sdk/x/staking/testutil"
	stakingtypes "github.com/cosmos/cosmos-sdk/x/staking/types"
	"github.com/stretchr/testify/require"

	test_helpers "github.com/terra-money/alliance/app"
	"github.com/terra-money/alliance/x/alliance"
	"github.com/terra-money/alliance/x/alliance/keeper"
	"github.com/terra-money/alliance/x/alliance/types"
)

type huntEnv struct {
	t      *testing.T
	app    *test_helpers.App
	ctx    sdk.Context
	ms     types.MsgServer
	vals   []sdk.ValAddress
	users  []sdk.AccAddress
	denoms []string
}

func huntDecValue(app *test_helpers.App, ctx sdk.Context, d types.Delegation) math.LegacyDec {
	valAddr, _ := sdk.ValAddressFromBech32(d.ValidatorAddress)
	val, err := app.AllianceKeeper.GetAllianceValidator(ctx, valAddr)
	if err != nil {
		panic(err)
	}
	asset, _ := app.AllianceKeeper.GetAssetByDenom(ctx, d.Denom)
	valTokens := val.TotalTokensWithAsset(asset)
	return types.ConvertNewShareToDecToken(valTokens, val.TotalDelegationSharesWithDenom(d.Denom), d.Shares)
}

type huntPos struct {
	del types.Delegation
	val math.LegacyDec
}

func huntSnapshot(app *test_helpers.App, ctx sdk.Context) map[string]huntPos {
	res := map[string]huntPos{}
	_ = app.AllianceKeeper.IterateDelegations(ctx, func(d types.Delegation) bool {
		res[d.DelegatorAddress+"|"+d.ValidatorAddress+"|"+d.Denom] = huntPos{del: d, val: huntDecValue(app, ctx, d)}
		return false
	})
	return res
}

// sums: per denom sum of values, sum validator shares; per val+denom sum delegator shares
func huntConsistency(app *test_helpers.App, ctx sdk.Context) (msgs []string) {
	valShareSum := map[string]math.LegacyDec{}
	_ = app.AllianceKeeper.IterateAllianceValidatorInfo(ctx, func(valAddr sdk.ValAddress, info types.AllianceValidatorInfo) bool {
		for _, s := range info.ValidatorShares {
			if _, ok := valShareSum[s.Denom]; !ok {
				valShareSum[s.Denom] = math.LegacyZeroDec()
			}
			valShareSum[s.Denom] = valShareSum[s.Denom].Add(s.Amount)
		}
		return false
	})
	for _, a := range app.AllianceKeeper.GetAllAssets(ctx) {
		s, ok := valShareSum[a.Denom]
		if !ok {
			s = math.LegacyZeroDec()
		}
		if s.Sub(a.TotalValidatorShares).Abs().GT(math.LegacyNewDecWithPrec(1, 6)) {
			msgs = append(msgs, fmt.Sprintf("validator share sum %s != asset total %s (%s)", s, a.TotalValidatorShares, a.Denom))
		}
	}
	delSum := map[string]math.LegacyDec{}
	_ = app.AllianceKeeper.IterateDelegations(ctx, func(d types.Delegation) bool {
		k := d.ValidatorAddress + "|" + d.Denom
		if _, ok := delSum[k]; !ok {
			delSum[k] = math.LegacyZeroDec()
		}
		delSum[k] = delSum[k].Add(d.Shares)
		return false
	})
	_ = app.AllianceKeeper.IterateAllianceValidatorInfo(ctx, func(valAddr sdk.ValAddress, info types.AllianceValidatorInfo) bool {
		for _, s := range info.TotalDelegatorShares {
			k := valAddr.String() + "|" + s.Denom
			ds, ok := delSum[k]
			if !ok {
				ds = math.LegacyZeroDec()
			}
			if ds.Sub(s.Amount).Abs().GT(math.LegacyNewDecWithPrec(1, 6)) {
				msgs = append(msgs, fmt.Sprintf("delegator share sum %s != validator total %s (%s)", ds, s.Amount, k))
			}
		}
		return false
	})
	return msgs
}

func newHuntEnv(t *testing.T, nVals, nUsers int, assets []types.AllianceAsset) *huntEnv {
	app, ctx := createTestContext(t)
	startTime := time.Now().UTC()
	ctx = ctx.WithBlockTime(startTime).WithBlockHeight(1)
	app.AllianceKeeper.InitGenesis(ctx, &types.GenesisState{
		Params: types.DefaultParams(),
		Assets: assets,
	})
	coins := sdk.NewCoins(sdk.NewCoin("stake", math.NewInt(1_000_000_000_000)))
	var denoms []string
	for _, a := range assets {
		coins = coins.Add(sdk.NewCoin(a.Denom, math.NewInt(1_000_000_000_000_000)))
		denoms = append(denoms, a.Denom)
	}
	addrs := test_helpers.AddTestAddrsIncremental(app, ctx, nVals+nUsers, coins)
	pks := test_helpers.CreateTestPubKeys(nVals)
	env := &huntEnv{t: t, app: app, ms: keeper.NewMsgServerImpl(app.AllianceKeeper), denoms: denoms}
	for i := 0; i < nVals; i++ {
		valAddr := sdk.ValAddress(addrs[i])
		v := teststaking.NewValidator(t, valAddr, pks[i])
		v.Commission = stakingtypes.Commission{
			CommissionRates: stakingtypes.CommissionRates{Rate: math.LegacyNewDec(0), MaxRate: math.LegacyNewDec(0), MaxChangeRate: math.LegacyNewDec(0)},
			UpdateTime:      startTime,
		}
		test_helpers.RegisterNewValidator(t, app, ctx, v)
		sv, err := app.StakingKeeper.GetValidator(ctx, valAddr)
		require.NoError(t, err)
		_, err = app.StakingKeeper.Delegate(ctx, addrs[i], math.NewInt(10_000_000), stakingtypes.Unbonded, sv, true)
		require.NoError(t, err)
		env.vals = append(env.vals, valAddr)
	}
	env.users = addrs[nVals:]
	env.ctx = ctx
	return env
}

func (e *huntEnv) nextBlock(d time.Duration) {
	err := alliance.EndBlocker(e.ctx, e.app.AllianceKeeper)
	require.NoError(e.t, err)
	e.ctx = e.ctx.WithBlockTime(e.ctx.BlockTime().Add(d)).WithBlockHeight(e.ctx.BlockHeight() + 1)
}

// slash via the real x/staking keeper; returns the fraction the hook got (derived from x/staking formula)
func (e *huntEnv) slash(valAddr sdk.ValAddress, factor math.LegacyDec) (eff math.LegacyDec, hookErr error) {
	sv, err := e.app.StakingKeeper.GetValidator(e.ctx, valAddr)
	require.NoError(e.t, err)
	cons, _ := sv.GetConsAddr()
	power := sv.GetConsensusPower(e.app.StakingKeeper.PowerReduction(e.ctx))
	// dry run of the alliance hook alone on a cache context to surface errors (x/staking only logs them)
	amount := e.app.StakingKeeper.TokensFromConsensusPower(e.ctx, power)
	burn := math.LegacyNewDecFromInt(amount).Mul(factor).TruncateInt()
	if burn.IsZero() {
		return math.LegacyZeroDec(), nil
	}
	eff = math.LegacyNewDecFromInt(burn).QuoRoundUp(math.LegacyNewDecFromInt(sv.Tokens))
	cctx, _ := e.ctx.CacheContext()
	func() {
		defer func() {
			if r := recover(); r != nil {
				hookErr = fmt.Errorf("panic: %v", r)
			}
		}()
		hookErr = e.app.AllianceKeeper.StakingHooks().BeforeValidatorSlashed(cctx, valAddr, eff)
	}()
	if hookErr != nil {
		return eff, hookErr
	}
	_, err = e.app.StakingKeeper.Slash(e.ctx, cons, e.ctx.BlockHeight(), power, factor)
	require.NoError(e.t, err)
	return eff, nil
}

func TestHuntFuzz(t *testing.T) {
	for seed := int64(1); seed <= 60; seed++ {
		seed := seed
		t.Run(fmt.Sprintf("seed%d", seed), func(t *testing.T) {
			r := rand.New(rand.NewSource(seed))
			start := time.Now().UTC()
			assets := []types.AllianceAsset{
				types.NewAllianceAsset("alliance", math.LegacyNewDecWithPrec(2, 1), math.LegacyZeroDec(), math.LegacyNewDec(5), math.LegacyZeroDec(), start.Add(-time.Hour)),
				types.NewAllianceAsset("alliance2", math.LegacyNewDec(1), math.LegacyZeroDec(), math.LegacyNewDec(5), math.LegacyNewDecWithPrec(1, 3), start.Add(-time.Hour)),
				types.NewAllianceAsset("alliance3", math.LegacyNewDecWithPrec(5, 1), math.LegacyZeroDec(), math.LegacyNewDec(5), math.LegacyZeroDec(), start.Add(40*24*time.Hour)),
			}
			e := newHuntEnv(t, 4, 5, assets)
			// a permanent co-delegator on every validator and asset (keeps away from the known sole-delegator defect)
			base := e.users[0]
			e.users = e.users[1:]
			for _, v := range e.vals {
				for _, dn := range e.denoms {
					_, err := e.ms.Delegate(e.ctx, &types.MsgDelegate{DelegatorAddress: base.String(), ValidatorAddress: v.String(), Amount: sdk.NewCoin(dn, math.NewInt(int64(1000+r.Intn(5_000_000))))})
					require.NoError(t, err)
				}
			}
			for step := 0; step < 400; step++ {
				op := r.Intn(100)
				// every operation in its own block (keeps away from the known same-block redelegation merge)
				e.nextBlock(time.Second)
				user := e.users[r.Intn(len(e.users))]
				denom := e.denoms[r.Intn(len(e.denoms))]
				v1 := e.vals[r.Intn(len(e.vals))]
				v2 := e.vals[r.Intn(len(e.vals))]
				amt := math.NewInt(int64(1 + r.Intn(1_000_000)*(1+r.Intn(1000))))
				switch {
				case op < 35:
					_, _ = e.ms.Delegate(e.ctx, &types.MsgDelegate{DelegatorAddress: user.String(), ValidatorAddress: v1.String(), Amount: sdk.NewCoin(denom, amt)})
				case op < 50:
					d, found := e.app.AllianceKeeper.GetDelegation(e.ctx, user, v1, denom)
					if !found {
						continue
					}
					val, _ := e.app.AllianceKeeper.GetAllianceValidator(e.ctx, v1)
					asset, _ := e.app.AllianceKeeper.GetAssetByDenom(e.ctx, denom)
					bal := types.GetDelegationTokens(d, val, asset).Amount
					if !bal.IsPositive() {
						continue
					}
					// partial only, to stay away from the known full-exit rounding defects
					part := bal.QuoRaw(int64(2 + r.Intn(5)))
					if !part.IsPositive() {
						continue
					}
					cctx, write := e.ctx.CacheContext()
					_, err := e.ms.Undelegate(cctx, &types.MsgUndelegate{DelegatorAddress: user.String(), ValidatorAddress: v1.String(), Amount: sdk.NewCoin(denom, part)})
					if err == nil {
						write()
					}
				case op < 70:
					d, found := e.app.AllianceKeeper.GetDelegation(e.ctx, user, v1, denom)
					if !found || v1.Equals(v2) {
						continue
					}
					val, _ := e.app.AllianceKeeper.GetAllianceValidator(e.ctx, v1)
					asset, _ := e.app.AllianceKeeper.GetAssetByDenom(e.ctx, denom)
					bal := types.GetDelegationTokens(d, val, asset).Amount
					part := bal.QuoRaw(int64(2 + r.Intn(5)))
					if !part.IsPositive() {
						continue
					}
					cctx, write := e.ctx.CacheContext()
					_, err := e.ms.Redelegate(cctx, &types.MsgRedelegate{DelegatorAddress: user.String(), ValidatorSrcAddress: v1.String(), ValidatorDstAddress: v2.String(), Amount: sdk.NewCoin(denom, part)})
					if err == nil {
						write()
					}
				case op < 80:
					e.nextBlock(time.Duration(1+r.Intn(5*24)) * time.Hour)
				case op < 83:
					// governance changes the reward weight (snapshots on every validator, rebalance)
					a, _ := e.app.AllianceKeeper.GetAssetByDenom(e.ctx, denom)
					_, err := e.ms.UpdateAlliance(e.ctx, &types.MsgUpdateAlliance{Authority: e.app.AllianceKeeper.GetAuthority(), Denom: denom,
						RewardWeight: math.LegacyNewDecWithPrec(int64(r.Intn(400)), 2), TakeRate: a.TakeRate, RewardChangeRate: math.LegacyNewDecWithPrec(int64(90+r.Intn(20)), 2),
						RewardChangeInterval: time.Duration(r.Intn(3)) * 24 * time.Hour, RewardWeightRange: a.RewardWeightRange})
					require.NoError(t, err)
				case op < 85:
					// governance changes the unbonding time
					sp, err := e.app.StakingKeeper.GetParams(e.ctx)
					require.NoError(t, err)
					sp.UnbondingTime = time.Duration(1+r.Intn(30)) * 24 * time.Hour
					require.NoError(t, e.app.StakingKeeper.SetParams(e.ctx, sp))
				default:
					pre := huntConsistency(e.app, e.ctx)
					if len(pre) > 0 {
						t.Logf("seed %d step %d: state already inconsistent before slash: %v", seed, step, pre)
						return
					}
					before := huntSnapshot(e.app, e.ctx)
					totBefore := map[string]math.LegacyDec{}
					for _, p := range before {
						if _, ok := totBefore[p.del.Denom]; !ok {
							totBefore[p.del.Denom] = math.LegacyZeroDec()
						}
						totBefore[p.del.Denom] = totBefore[p.del.Denom].Add(p.val)
					}
					factor := math.LegacyNewDecWithPrec(int64(1+r.Intn(50)), 2)
					// destinations of immature redelegations from the slashed validator, per denom
					dst := map[string]bool{}
					e.app.AllianceKeeper.IterateRedelegations(e.ctx, func(rd types.Redelegation, ct time.Time) bool {
						if rd.SrcValidatorAddress == v1.String() {
							dst[rd.DstValidatorAddress+"|"+rd.Balance.Denom] = true
						}
						return false
					})
					eff, hookErr := e.slash(v1, factor)
					require.NoError(t, hookErr, "seed %d step %d: alliance slash hook failed", seed, step)
					after := huntSnapshot(e.app, e.ctx)
					if eff.IsPositive() {
						tol := math.LegacyNewDecWithPrec(1, 9)
						for _, dn := range e.denoms {
							var g, rs math.LegacyDec
							for k, pb := range before {
								pa, ok := after[k]
								if pb.del.Denom != dn || !ok || pb.val.LT(math.LegacyNewDec(1000)) {
									continue
								}
								ratio := pa.val.Quo(pb.val)
								switch {
								case pb.del.ValidatorAddress == v1.String():
									if rs.IsNil() {
										rs = ratio
									} else if rs.Sub(ratio).Abs().GT(tol) {
										t.Errorf("seed %d step %d: %s positions on the slashed validator scaled differently: %s vs %s", seed, step, dn, rs, ratio)
									}
								case dst[pb.del.ValidatorAddress+"|"+dn]:
								default:
									if g.IsNil() {
										g = ratio
									} else if g.Sub(ratio).Abs().GT(tol) {
										t.Errorf("seed %d step %d: %s positions on other validators scaled differently: %s vs %s", seed, step, dn, g, ratio)
									}
								}
							}
							if !g.IsNil() {
								if g.LT(math.LegacyOneDec().Sub(tol)) {
									t.Errorf("seed %d step %d: %s g < 1: %s", seed, step, dn, g)
								}
								for k, pb := range before {
									pa, ok := after[k]
									if pb.del.Denom != dn || !ok || pb.val.LT(math.LegacyNewDec(1000)) || !dst[pb.del.ValidatorAddress+"|"+dn] || pb.del.DelegatorAddress != base.String() {
										continue
									}
									if pa.val.Quo(pb.val).LT(g.Sub(tol)) {
										t.Errorf("seed %d step %d: %s bystander on a redelegation destination got less than g: %s < %s", seed, step, dn, pa.val.Quo(pb.val), g)
									}
								}
							}
							if !g.IsNil() && !rs.IsNil() {
								want := math.LegacyOneDec().Sub(eff)
								if rs.Quo(g).Sub(want).Abs().GT(tol) {
									t.Errorf("seed %d step %d: %s relative loss %s, want 1-f = %s", seed, step, dn, rs.Quo(g), want)
								}
							}
						}
					}
					totAfter := map[string]math.LegacyDec{}
					for _, p := range after {
						if _, ok := totAfter[p.del.Denom]; !ok {
							totAfter[p.del.Denom] = math.LegacyZeroDec()
						}
						totAfter[p.del.Denom] = totAfter[p.del.Denom].Add(p.val)
					}
					for _, a := range e.app.AllianceKeeper.GetAllAssets(e.ctx) {
						tb, ok1 := totBefore[a.Denom]
						ta, ok2 := totAfter[a.Denom]
						if !ok1 || !ok2 {
							continue
						}
						if ta.Sub(tb).Abs().GT(math.LegacyNewDecWithPrec(1, 3)) {
							t.Errorf("seed %d step %d: %s total position value changed by slash: %s -> %s (TotalTokens %s)", seed, step, a.Denom, tb, ta, a.TotalTokens)
							e.app.AllianceKeeper.IterateRedelegations(e.ctx, func(rd types.Redelegation, ct time.Time) bool {
								if rd.SrcValidatorAddress == v1.String() && rd.Balance.Denom == a.Denom {
									n := 0
									for _, p := range before {
										if p.del.ValidatorAddress == rd.DstValidatorAddress && p.del.Denom == a.Denom {
											n++
										}
									}
									dv, _ := sdk.ValAddressFromBech32(rd.DstValidatorAddress)
									info, _ := e.app.AllianceKeeper.GetAllianceValidatorInfo(e.ctx, dv)
									t.Logf("   redelegation %s -> %s %s completion %s; dst positions before: %d; dst info now: del %s val %s", rd.DelegatorAddress[len(rd.DelegatorAddress)-6:], rd.DstValidatorAddress[len(rd.DstValidatorAddress)-6:], rd.Balance, ct, n, info.TotalDelegatorShares, info.ValidatorShares)
								}
								return false
							})
						}
					}
					post := huntConsistency(e.app, e.ctx)
					if len(post) > 0 {
						t.Errorf("seed %d step %d: slash broke share sums: %v", seed, step, post)
						return
					}
				}
			}
		})
	}
}
