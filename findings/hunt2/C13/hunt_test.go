package tests_test

import (
	"testing"
	"time"

	"cosmossdk.io/math"

	test_helpers "github.com/terra-money/alliance/app"
	"github.com/terra-money/alliance/x/alliance"
	"github.com/terra-money/alliance/x/alliance/keeper"
	"github.com/terra-money/alliance/x/alliance/types"

	abcitypes "github.com/cometbft/cometbft/abci/types"
	sdk "github.com/cosmos/cosmos-sdk/types"
	authtypes "github.com/cosmos/cosmos-sdk/x/auth/types"
	minttypes "github.com/cosmos/cosmos-sdk/x/mint/types"
	"github.com/stretchr/testify/require"
)

// C13: "within an asset, [a reward is split] among positions in proportion to their token value at that time;
// a claim pays the accumulated entitlement to within one base unit per claim and reward denomination".
//
// accumulateRewards weighs a position with GetDelegationTokens(...).Amount, i.e. with the position's token value
// rounded to a whole number of base units (+0.01, truncated), while the reward index is computed per exact
// (fractional) validator token. As soon as positions have fractional token values (which every take-rate
// deduction produces), every claim loses (index difference) x (fractional part of the position value),
// which is far more than one base unit when more than one reward unit per staked unit is distributed.
func TestHuntClaimWeightTruncatedToWholeTokens(t *testing.T) {
	app, ctx := createTestContext(t)
	startTime := time.Now().UTC()
	ctx = ctx.WithBlockTime(startTime).WithBlockHeight(1)
	takeRateInterval := time.Minute * 5
	app.AllianceKeeper.InitGenesis(ctx, &types.GenesisState{
		Params: types.Params{
			RewardDelayTime:       time.Minute * 60,
			TakeRateClaimInterval: takeRateInterval,
			LastTakeRateClaimTime: startTime,
		},
		Assets: []types.AllianceAsset{
			types.NewAllianceAsset(AllianceDenom, math.LegacyNewDec(1), math.LegacyZeroDec(), math.LegacyNewDec(5), math.LegacyMustNewDecFromStr("0.1"), startTime),
		},
	})
	// no community tax, easier to follow (the assertion does not depend on it)
	distParams, err := app.DistrKeeper.Params.Get(ctx)
	require.NoError(t, err)
	distParams.CommunityTax = math.LegacyZeroDec()
	require.NoError(t, app.DistrKeeper.Params.Set(ctx, distParams))

	bondDenom, err := app.StakingKeeper.BondDenom(ctx)
	require.NoError(t, err)
	rewardsPoolAddr := app.AccountKeeper.GetModuleAddress(types.RewardsPoolName)
	delegations, err := app.StakingKeeper.GetAllDelegations(ctx)
	require.NoError(t, err)
	valAddr1, err := sdk.ValAddressFromBech32(delegations[0].ValidatorAddress)
	require.NoError(t, err)
	val1, err := app.AllianceKeeper.GetAllianceValidator(ctx, valAddr1)
	require.NoError(t, err)

	addrs := test_helpers.AddTestAddrsIncremental(app, ctx, 2, sdk.NewCoins(
		sdk.NewCoin(AllianceDenom, math.NewInt(10_000_000)),
	))
	user1, user2 := addrs[0], addrs[1]
	stake1, stake2 := math.NewInt(1_000_000), math.NewInt(2_000_001)

	msgServer := keeper.NewMsgServerImpl(app.AllianceKeeper)
	_, err = msgServer.Delegate(ctx, &types.MsgDelegate{DelegatorAddress: user1.String(), ValidatorAddress: valAddr1.String(), Amount: sdk.NewCoin(AllianceDenom, stake1)})
	require.NoError(t, err)
	_, err = msgServer.Delegate(ctx, &types.MsgDelegate{DelegatorAddress: user2.String(), ValidatorAddress: valAddr1.String(), Amount: sdk.NewCoin(AllianceDenom, stake2)})
	require.NoError(t, err)
	require.NoError(t, alliance.EndBlocker(ctx, app.AllianceKeeper))

	// One take rate interval passes: 3_000_001 * 0.9 = 2_700_000.9 -> 2_700_000 tokens back the two positions
	ctx = ctx.WithBlockTime(ctx.BlockTime().Add(takeRateInterval + time.Second)).WithBlockHeight(2)
	require.NoError(t, alliance.EndBlocker(ctx, app.AllianceKeeper))
	asset, found := app.AllianceKeeper.GetAssetByDenom(ctx, AllianceDenom)
	require.True(t, found)
	require.Equal(t, math.NewInt(2_700_000), asset.TotalTokens)

	// Both positions settle everything that accrued so far (nothing may be left over from before the deduction)
	ctx = ctx.WithBlockTime(ctx.BlockTime().Add(time.Second)).WithBlockHeight(3)
	for _, u := range []sdk.AccAddress{user1, user2} {
		_, err = msgServer.ClaimDelegationRewards(ctx, &types.MsgClaimDelegationRewards{DelegatorAddress: u.String(), ValidatorAddress: valAddr1.String(), Denom: AllianceDenom})
		require.NoError(t, err)
	}
	// immediate second claim pays nothing (sanity: we start from a settled state)
	before := app.BankKeeper.GetBalance(ctx, user1, bondDenom)
	_, err = msgServer.ClaimDelegationRewards(ctx, &types.MsgClaimDelegationRewards{DelegatorAddress: user1.String(), ValidatorAddress: valAddr1.String(), Denom: AllianceDenom})
	require.NoError(t, err)
	require.Equal(t, before, app.BankKeeper.GetBalance(ctx, user1, bondDenom))

	// Fees of the next block: 6e9 units of the bond denom reach the fee collector and are allocated by x/distribution
	ctx = ctx.WithBlockTime(ctx.BlockTime().Add(time.Second)).WithBlockHeight(4)
	fees := sdk.NewCoins(sdk.NewCoin(bondDenom, math.NewInt(6_000_000_000)))
	require.NoError(t, app.BankKeeper.MintCoins(ctx, minttypes.ModuleName, fees))
	require.NoError(t, app.BankKeeper.SendCoinsFromModuleToModule(ctx, minttypes.ModuleName, authtypes.FeeCollectorName, fees))
	cons, _ := val1.GetConsAddr()
	require.NoError(t, app.DistrKeeper.AllocateTokens(ctx, 1, []abcitypes.VoteInfo{{
		Validator:   abcitypes.Validator{Address: cons, Power: 1},
		BlockIdFlag: 1,
	}}))

	// The staked values do not change any more (no deduction is due, nobody (un)delegates)
	claim := func(u sdk.AccAddress) (paid math.Int, received math.Int) {
		poolBefore := app.BankKeeper.GetBalance(ctx, rewardsPoolAddr, bondDenom).Amount
		userBefore := app.BankKeeper.GetBalance(ctx, u, bondDenom).Amount
		_, err := msgServer.ClaimDelegationRewards(ctx, &types.MsgClaimDelegationRewards{DelegatorAddress: u.String(), ValidatorAddress: valAddr1.String(), Denom: AllianceDenom})
		require.NoError(t, err)
		paid = app.BankKeeper.GetBalance(ctx, u, bondDenom).Amount.Sub(userBefore)
		// what the validator settlement put into the pool during this claim
		received = app.BankKeeper.GetBalance(ctx, rewardsPoolAddr, bondDenom).Amount.Add(paid).Sub(poolBefore)
		return paid, received
	}
	paid1, received := claim(user1)
	paid2, received2 := claim(user2)
	require.True(t, received2.IsZero(), "the validator was settled by the first claim")
	require.True(t, received.GT(math.NewInt(1_000_000_000)), "reward received for the validator: %s", received)

	// Only this asset is staked on the validator: the whole reward belongs to the two positions, split by their
	// token value 2_700_000 * stake_i / 3_000_001, i.e. in the ratio stake1 : stake2
	total := stake1.Add(stake2)
	entitled1 := math.LegacyNewDecFromInt(received).MulInt(stake1).QuoInt(total)
	entitled2 := math.LegacyNewDecFromInt(received).MulInt(stake2).QuoInt(total)
	t.Logf("reward received for validator: %s", received)
	t.Logf("user1: entitled %s paid %s", entitled1, paid1)
	t.Logf("user2: entitled %s paid %s", entitled2, paid2)
	t.Logf("left in the rewards pool for nobody: %s", received.Sub(paid1).Sub(paid2))

	one := math.LegacyOneDec()
	require.True(t, entitled1.Sub(math.LegacyNewDecFromInt(paid1)).Abs().LTE(one),
		"user1 claim differs from the entitlement by more than one base unit: entitled %s, paid %s", entitled1, paid1)
	require.True(t, entitled2.Sub(math.LegacyNewDecFromInt(paid2)).Abs().LTE(one),
		"user2 claim differs from the entitlement by more than one base unit: entitled %s, paid %s", entitled2, paid2)
}
