package tests_test

import (
	"fmt"
	"math/rand"
	"testing"
	"time"

	"cosmossdk.io/math"

	test_helpers "github.com/terra-money/alliance/app"
	"github.com/terra-money/alliance/x/alliance"
	"github.com/terra-money/alliance/x/alliance/keeper"
	"github.com/terra-money/alliance/x/alliance/types"

	sdk "github.com/cosmos/cosmos-sdk/types"
	teststaking "github.com/cosmos/cosmos-sdk/x/staking/testutil"
	stakingtypes "github.com/cosmos/cosmos-sdk/x/staking/types"
	"github.com/stretchr/testify/require"
)

type huntPos struct {
	del   string
	val   string
	denom string
}

// huntValues returns the exact (decimal) value of every position of every asset
func huntValues(t *testing.T, app *test_helpers.App, ctx sdk.Context) map[huntPos]math.LegacyDec {
	res := map[huntPos]math.LegacyDec{}
	_ = app.AllianceKeeper.IterateDelegations(ctx, func(d types.Delegation) bool {
		asset, found := app.AllianceKeeper.GetAssetByDenom(ctx, d.Denom)
		if !found {
			return false
		}
		valAddr, _ := sdk.ValAddressFromBech32(d.ValidatorAddress)
		val, err := app.AllianceKeeper.GetAllianceValidator(ctx, valAddr)
		require.NoError(t, err)
		valTokens := val.TotalTokensWithAsset(asset)
		tot := val.TotalDelegationSharesWithDenom(asset.Denom)
		v := types.ConvertNewShareToDecToken(valTokens, tot, d.Shares)
		res[huntPos{d.DelegatorAddress, d.ValidatorAddress, d.Denom}] = v
		return false
	})
	return res
}

func huntFuzz(t *testing.T, seed int64, steps int, withSlash bool, maxAmt int64) (failure string) {
	app, ctx := createTestContext(t)
	startTime := time.Now().UTC()
	ctx = ctx.WithBlockTime(startTime).WithBlockHeight(1)
	r := rand.New(rand.NewSource(seed))
	denoms := []string{AllianceDenom, AllianceDenomTwo}
	params := types.DefaultParams()
	params.TakeRateClaimInterval = time.Minute * 5
	params.LastTakeRateClaimTime = startTime
	app.AllianceKeeper.InitGenesis(ctx, &types.GenesisState{
		Params: params,
		Assets: []types.AllianceAsset{
			types.NewAllianceAsset(AllianceDenom, math.LegacyNewDec(2), math.LegacyZeroDec(), math.LegacyNewDec(5), math.LegacyMustNewDecFromStr("0.0001"), startTime),
			types.NewAllianceAsset(AllianceDenomTwo, math.LegacyMustNewDecFromStr("0.3"), math.LegacyZeroDec(), math.LegacyNewDec(12), math.LegacyZeroDec(), startTime.Add(time.Hour)),
		},
	})
	nUsers := 5
	nVals := 3
	addrs := test_helpers.AddTestAddrsIncremental(app, ctx, nUsers+nVals, sdk.NewCoins(
		sdk.NewCoin(AllianceDenom, math.NewInt(maxAmt).MulRaw(1000)),
		sdk.NewCoin(AllianceDenomTwo, math.NewInt(maxAmt).MulRaw(1000)),
	))
	pks := test_helpers.CreateTestPubKeys(nVals)
	var valAddrs []sdk.ValAddress
	for i := 0; i < nVals; i++ {
		valAddr := sdk.ValAddress(addrs[nUsers+i])
		_val := teststaking.NewValidator(t, valAddr, pks[i])
		_val.Commission = stakingtypes.Commission{
			CommissionRates: stakingtypes.CommissionRates{Rate: math.LegacyNewDec(0), MaxRate: math.LegacyNewDec(0), MaxChangeRate: math.LegacyNewDec(0)},
			UpdateTime:      startTime,
		}
		test_helpers.RegisterNewValidator(t, app, ctx, _val)
		valAddrs = append(valAddrs, valAddr)
	}
	// give every validator some native stake so that they are bonded with tokens
	bondDenom, _ := app.StakingKeeper.BondDenom(ctx)
	for i := 0; i < nVals; i++ {
		require.NoError(t, app.BankKeeper.MintCoins(ctx, "mint", sdk.NewCoins(sdk.NewCoin(bondDenom, math.NewInt(1_000_000)))))
		require.NoError(t, app.BankKeeper.SendCoinsFromModuleToAccount(ctx, "mint", addrs[i], sdk.NewCoins(sdk.NewCoin(bondDenom, math.NewInt(1_000_000)))))
		v, err := app.StakingKeeper.GetValidator(ctx, valAddrs[i])
		require.NoError(t, err)
		_, err = app.StakingKeeper.Delegate(ctx, addrs[i], math.NewInt(1_000_000), stakingtypes.Unbonded, v, true)
		require.NoError(t, err)
	}
	msgServer := keeper.NewMsgServerImpl(app.AllianceKeeper)
	tol := math.LegacyNewDec(1).Add(math.LegacyNewDecWithPrec(1, 3))

	check := func(desc string, before, after map[huntPos]math.LegacyDec, actor map[huntPos]math.LegacyDec) string {
		keys := map[huntPos]bool{}
		for k := range before {
			keys[k] = true
		}
		for k := range after {
			keys[k] = true
		}
		for k := range keys {
			b, ok := before[k]
			if !ok {
				b = math.LegacyZeroDec()
			}
			a, ok := after[k]
			if !ok {
				a = math.LegacyZeroDec()
			}
			exp := math.LegacyZeroDec()
			if d, ok := actor[k]; ok {
				exp = d
			}
			diff := a.Sub(b).Sub(exp).Abs()
			rel := b.Abs().Add(a.Abs()).Mul(math.LegacyNewDecWithPrec(1, 12))
			if diff.GT(tol.Add(rel)) {
				return fmt.Sprintf("%s: position %v changed from %s to %s, expected change %s", desc, k, b, a, exp)
			}
		}
		// sum per asset
		for _, denom := range denoms {
			asset, _ := app.AllianceKeeper.GetAssetByDenom(ctx, denom)
			sum := math.LegacyZeroDec()
			n := 0
			for k, v := range after {
				if k.denom == denom {
					sum = sum.Add(v)
					n++
				}
			}
			if sum.GT(math.LegacyNewDecFromInt(asset.TotalTokens).Add(math.LegacyNewDec(int64(n))).Mul(math.LegacyOneDec().Add(math.LegacyNewDecWithPrec(1, 12)))) {
				return fmt.Sprintf("%s: sum of values %s > total tokens %s (n=%d) of %s", desc, sum, asset.TotalTokens, n, denom)
			}
		}
		return ""
	}

	okOps := map[string]int{}
	defer func() { t.Logf("seed %d ops %v", seed, okOps) }()
	for step := 0; step < steps; step++ {
		u := addrs[r.Intn(nUsers)]
		vi := r.Intn(nVals)
		denom := denoms[r.Intn(2)]
		before := huntValues(t, app, ctx)
		op := r.Intn(100)
		var amt math.Int
		switch r.Intn(4) {
		case 0:
			amt = math.NewInt(1 + r.Int63n(10))
		case 1:
			amt = math.NewInt(1 + r.Int63n(1000))
		default:
			amt = math.NewInt(1 + r.Int63n(maxAmt))
		}
		cctx, write := ctx.CacheContext()
		switch {
		case op < 30:
			_, err := msgServer.Delegate(cctx, &types.MsgDelegate{DelegatorAddress: u.String(), ValidatorAddress: valAddrs[vi].String(), Amount: sdk.NewCoin(denom, amt)})
			if err != nil {
				continue
			}
			write()
			okOps["del"]++
			after := huntValues(t, app, ctx)
			k := huntPos{u.String(), valAddrs[vi].String(), denom}
			if f := check(fmt.Sprintf("step %d delegate %s %s to val%d by %s", step, amt, denom, vi, u), before, after, map[huntPos]math.LegacyDec{k: math.LegacyNewDecFromInt(amt)}); f != "" {
				return f
			}
		case op < 55:
			k := huntPos{u.String(), valAddrs[vi].String(), denom}
			if b, ok := before[k]; ok && r.Intn(3) == 0 {
				// full exit of the reported balance
				d, _ := app.AllianceKeeper.GetDelegation(ctx, u, valAddrs[vi], denom)
				val, _ := app.AllianceKeeper.GetAllianceValidator(ctx, valAddrs[vi])
				asset, _ := app.AllianceKeeper.GetAssetByDenom(ctx, denom)
				amt = types.GetDelegationTokens(d, val, asset).Amount
				_ = b
				if !amt.IsPositive() {
					continue
				}
			}
			_, err := msgServer.Undelegate(cctx, &types.MsgUndelegate{DelegatorAddress: u.String(), ValidatorAddress: valAddrs[vi].String(), Amount: sdk.NewCoin(denom, amt)})
			if err != nil {
				continue
			}
			write()
			okOps["undel"]++
			after := huntValues(t, app, ctx)
			if f := check(fmt.Sprintf("step %d undelegate %s %s from val%d by %s", step, amt, denom, vi, u), before, after, map[huntPos]math.LegacyDec{k: math.LegacyNewDecFromInt(amt).Neg()}); f != "" {
				return f
			}
		case op < 75:
			vj := (vi + 1 + r.Intn(nVals-1)) % nVals
			k := huntPos{u.String(), valAddrs[vi].String(), denom}
			k2 := huntPos{u.String(), valAddrs[vj].String(), denom}
			if _, ok := before[k]; ok && r.Intn(3) == 0 {
				d, _ := app.AllianceKeeper.GetDelegation(ctx, u, valAddrs[vi], denom)
				val, _ := app.AllianceKeeper.GetAllianceValidator(ctx, valAddrs[vi])
				asset, _ := app.AllianceKeeper.GetAssetByDenom(ctx, denom)
				amt = types.GetDelegationTokens(d, val, asset).Amount
				if !amt.IsPositive() {
					continue
				}
			}
			_, err := msgServer.Redelegate(cctx, &types.MsgRedelegate{DelegatorAddress: u.String(), ValidatorSrcAddress: valAddrs[vi].String(), ValidatorDstAddress: valAddrs[vj].String(), Amount: sdk.NewCoin(denom, amt)})
			if err != nil {
				continue
			}
			write()
			okOps["redel"]++
			after := huntValues(t, app, ctx)
			if f := check(fmt.Sprintf("step %d redelegate %s %s val%d->val%d by %s", step, amt, denom, vi, vj, u), before, after, map[huntPos]math.LegacyDec{k: math.LegacyNewDecFromInt(amt).Neg(), k2: math.LegacyNewDecFromInt(amt)}); f != "" {
				return f
			}
		case op < 85:
			_, err := msgServer.ClaimDelegationRewards(cctx, &types.MsgClaimDelegationRewards{DelegatorAddress: u.String(), ValidatorAddress: valAddrs[vi].String(), Denom: denom})
			if err != nil {
				continue
			}
			write()
			okOps["claim"]++
			after := huntValues(t, app, ctx)
			if f := check(fmt.Sprintf("step %d claim %s val%d by %s", step, denom, vi, u), before, after, nil); f != "" {
				return f
			}
		case op < 97:
			// next block
			if err := alliance.EndBlocker(ctx, app.AllianceKeeper); err != nil {
				return fmt.Sprintf("step %d end blocker: %s", step, err)
			}
			okOps["block"]++
			_, err2 := app.StakingKeeper.EndBlocker(ctx)
			require.NoError(t, err2)
			dt := time.Duration(1+r.Intn(600)) * time.Second
			if r.Intn(20) == 0 {
				dt = time.Hour * 24 * time.Duration(1+r.Intn(25))
			}
			ctx = ctx.WithBlockTime(ctx.BlockTime().Add(dt)).WithBlockHeight(ctx.BlockHeight() + 1)
			// rewards
			v, _ := app.StakingKeeper.GetValidator(ctx, valAddrs[vi])
			rew := sdk.NewCoins(sdk.NewCoin(bondDenom, math.NewInt(1+r.Int63n(1000000))))
			require.NoError(t, app.BankKeeper.MintCoins(ctx, "mint", rew))
			require.NoError(t, app.BankKeeper.SendCoinsFromModuleToModule(ctx, "mint", "distribution", rew))
			require.NoError(t, app.DistrKeeper.AllocateTokensToValidator(ctx, v, sdk.NewDecCoinsFromCoins(rew...)))
		default:
			if !withSlash {
				continue
			}
			v, _ := app.StakingKeeper.GetValidator(ctx, valAddrs[vi])
			cons, _ := v.GetConsAddr()
			power := v.GetConsensusPower(app.StakingKeeper.PowerReduction(ctx))
			if power == 0 || !v.IsBonded() {
				continue
			}
			_, err := app.StakingKeeper.Slash(ctx, cons, ctx.BlockHeight(), power, math.LegacyMustNewDecFromStr("0.05"))
			require.NoError(t, err)
		}
	}
	return ""
}

func TestHuntFuzz(t *testing.T) {
	for seed := int64(1); seed <= 30; seed++ {
		f := huntFuzz(t, seed, 400, false, 1_000_000_000)
		if f != "" {
			t.Errorf("seed %d: %s", seed, f)
		}
	}
}

func TestHuntFuzzSlash(t *testing.T) {
	for seed := int64(1); seed <= 30; seed++ {
		f := huntFuzz(t, seed, 400, true, 1_000_000_000)
		if f != "" {
			t.Errorf("seed %d: %s", seed, f)
		}
	}
}

func TestHuntFuzzSmall(t *testing.T) {
	for seed := int64(1); seed <= 30; seed++ {
		f := huntFuzz(t, seed, 400, false, 50)
		if f != "" {
			t.Errorf("seed %d: %s", seed, f)
		}
	}
}

// TestHuntDelegationCapturesStakeAfterFullSlash
// C04: a successful delegation changes the acting delegator's redeemable value by exactly the requested amount and
// changes no other delegator's value.
// Scenario: the only validator that holds an asset is slashed with an effective fraction of 1 (default 5% double sign
// fraction, but the validator lost voting power between the infraction and the evidence because the alliance module
// unbonds its own stake instantly). asset.TotalValidatorShares becomes zero while asset.TotalTokens stays. The zero
// total is then read as "the pool is empty": the first delegation to any other validator is issued shares 1:1 and owns
// the whole staked total.
func TestHuntDelegationCapturesStakeAfterFullSlash(t *testing.T) {
	app, ctx := createTestContext(t)
	startTime := time.Now().UTC()
	ctx = ctx.WithBlockTime(startTime).WithBlockHeight(1)
	params := types.DefaultParams()
	params.LastTakeRateClaimTime = startTime
	app.AllianceKeeper.InitGenesis(ctx, &types.GenesisState{
		Params: params,
		Assets: []types.AllianceAsset{
			types.NewAllianceAsset(AllianceDenom, math.LegacyMustNewDecFromStr("0.1"), math.LegacyZeroDec(), math.LegacyNewDec(5), math.LegacyZeroDec(), startTime),
			types.NewAllianceAsset(AllianceDenomTwo, math.LegacyNewDec(10), math.LegacyZeroDec(), math.LegacyNewDec(12), math.LegacyZeroDec(), startTime),
		},
	})
	addrs := test_helpers.AddTestAddrsIncremental(app, ctx, 5, sdk.NewCoins(
		sdk.NewCoin(AllianceDenom, math.NewInt(10_000_000)),
		sdk.NewCoin(AllianceDenomTwo, math.NewInt(10_000_000)),
	))
	pks := test_helpers.CreateTestPubKeys(2)
	bondDenom, _ := app.StakingKeeper.BondDenom(ctx)
	var valAddrs []sdk.ValAddress
	for i := 0; i < 2; i++ {
		valAddr := sdk.ValAddress(addrs[3+i])
		_val := teststaking.NewValidator(t, valAddr, pks[i])
		_val.Commission = stakingtypes.Commission{
			CommissionRates: stakingtypes.CommissionRates{Rate: math.LegacyNewDec(0), MaxRate: math.LegacyNewDec(0), MaxChangeRate: math.LegacyNewDec(0)},
			UpdateTime:      startTime,
		}
		test_helpers.RegisterNewValidator(t, app, ctx, _val)
		valAddrs = append(valAddrs, valAddr)
		coins := sdk.NewCoins(sdk.NewCoin(bondDenom, math.NewInt(1_000_000)))
		require.NoError(t, app.BankKeeper.MintCoins(ctx, "mint", coins))
		require.NoError(t, app.BankKeeper.SendCoinsFromModuleToAccount(ctx, "mint", addrs[3+i], coins))
		v, err := app.StakingKeeper.GetValidator(ctx, valAddr)
		require.NoError(t, err)
		_, err = app.StakingKeeper.Delegate(ctx, addrs[3+i], math.NewInt(1_000_000), stakingtypes.Unbonded, v, true)
		require.NoError(t, err)
	}
	d1, d2, x := addrs[0], addrs[1], addrs[2]
	ms := keeper.NewMsgServerImpl(app.AllianceKeeper)
	nextBlock := func() {
		_, err := app.StakingKeeper.EndBlocker(ctx)
		require.NoError(t, err)
		require.NoError(t, alliance.EndBlocker(ctx, app.AllianceKeeper))
		ctx = ctx.WithBlockTime(ctx.BlockTime().Add(time.Minute)).WithBlockHeight(ctx.BlockHeight() + 1)
	}
	value := func(del sdk.AccAddress, val sdk.ValAddress) math.Int {
		res, err := keeper.NewQueryServerImpl(app.AllianceKeeper).AllianceDelegation(ctx, &types.QueryAllianceDelegationRequest{
			DelegatorAddr: del.String(), ValidatorAddr: val.String(), Denom: AllianceDenom,
		})
		require.NoError(t, err)
		return res.Delegation.Balance.Amount
	}

	// block 1: D1 stakes ALLIANCE on validator 1 (the only validator that holds the asset), X stakes ALLIANCE2 there
	_, err := ms.Delegate(ctx, &types.MsgDelegate{DelegatorAddress: d1.String(), ValidatorAddress: valAddrs[0].String(), Amount: sdk.NewCoin(AllianceDenom, math.NewInt(1_000_000))})
	require.NoError(t, err)
	_, err = ms.Delegate(ctx, &types.MsgDelegate{DelegatorAddress: x.String(), ValidatorAddress: valAddrs[0].String(), Amount: sdk.NewCoin(AllianceDenomTwo, math.NewInt(1_000_000))})
	require.NoError(t, err)
	nextBlock()
	v1, err := app.StakingKeeper.GetValidator(ctx, valAddrs[0])
	require.NoError(t, err)
	infractionHeight := ctx.BlockHeight()
	infractionPower := v1.GetConsensusPower(app.StakingKeeper.PowerReduction(ctx))
	t.Logf("validator 1 at the infraction: tokens %s power %d", v1.Tokens, infractionPower)
	nextBlock()

	// X leaves, the rebalance unbonds the module's stake at once: the validator's power drops without unbonding entries
	_, err = ms.Undelegate(ctx, &types.MsgUndelegate{DelegatorAddress: x.String(), ValidatorAddress: valAddrs[0].String(), Amount: sdk.NewCoin(AllianceDenomTwo, math.NewInt(1_000_000))})
	require.NoError(t, err)
	nextBlock()
	v1, _ = app.StakingKeeper.GetValidator(ctx, valAddrs[0])
	t.Logf("validator 1 when the evidence arrives: tokens %s", v1.Tokens)

	// the double sign evidence is handled: x/evidence calls Slash with the power at the infraction and the default 5%
	cons, _ := v1.GetConsAddr()
	fraction, err := app.SlashingKeeper.SlashFractionDoubleSign(ctx)
	require.NoError(t, err)
	require.Equal(t, math.LegacyMustNewDecFromStr("0.05"), fraction)
	require.NoError(t, app.SlashingKeeper.Slash(ctx, cons, fraction, infractionPower, infractionHeight))
	nextBlock()

	asset, _ := app.AllianceKeeper.GetAssetByDenom(ctx, AllianceDenom)
	t.Logf("asset after the slash: total tokens %s total validator shares %s", asset.TotalTokens, asset.TotalValidatorShares)
	d1Before := value(d1, valAddrs[0])
	t.Logf("D1 reported value after the slash: %s", d1Before)

	// D2 delegates one base unit to the other validator
	_, err = ms.Delegate(ctx, &types.MsgDelegate{DelegatorAddress: d2.String(), ValidatorAddress: valAddrs[1].String(), Amount: sdk.NewCoin(AllianceDenom, math.NewInt(1))})
	require.NoError(t, err)
	d1After := value(d1, valAddrs[0])
	d2After := value(d2, valAddrs[1])
	t.Logf("after D2 delegated 1: D1 %s, D2 %s", d1After, d2After)
	// the reported value is really redeemable: D2 undelegates everything
	cctx, _ := ctx.CacheContext()
	_, uerr := ms.Undelegate(cctx, &types.MsgUndelegate{DelegatorAddress: d2.String(), ValidatorAddress: valAddrs[1].String(), Amount: sdk.NewCoin(AllianceDenom, d2After)})
	t.Logf("D2 undelegates %s: err=%v", d2After, uerr)
	// the acting delegator's value changes by exactly the requested amount (one unit of tolerance)
	if !d2After.LTE(math.NewInt(2)) {
		t.Errorf("D2 delegated 1 unit and now owns %s (undelegation of that amount: err=%v)", d2After, uerr)
	}
	// nobody else's value changes
	if !d1After.Sub(d1Before).Abs().LTE(math.OneInt()) {
		t.Errorf("D1's value changed from %s to %s through D2's delegation", d1Before, d1After)
	}
}
