package tests_test

import (
	"fmt"
	"math/rand"
	"sort"
	"testing"
	"time"

	"cosmossdk.io/math"
	storetypes "cosmossdk.io/store/types"

	"github.com/cosmos/cosmos-sdk/runtime"
	sdk "github.com/cosmos/cosmos-sdk/types"
	teststaking "github.com/cosmos/cosmos-sdk/x/staking/testutil"
	stakingtypes "github.com/cosmos/cosmos-sdk/x/staking/types"
	"github.com/stretchr/testify/require"

	minttypes "github.com/cosmos/cosmos-sdk/x/mint/types"

	test_helpers "github.com/terra-money/alliance/app"
	"github.com/terra-money/alliance/x/alliance"
	"github.com/terra-money/alliance/x/alliance/keeper"
	"github.com/terra-money/alliance/x/alliance/types"
)

// model of one pending unbonding entry
type huntEntry struct {
	del        string
	val        string
	denom      string
	amount     math.Int
	completion time.Time
}

type huntEnv struct {
	t       *testing.T
	app     *test_helpers.App
	ctx     sdk.Context
	ms      types.MsgServer
	dels    []sdk.AccAddress
	vals    []sdk.ValAddress
	denoms  []string
	pending []*huntEntry
	nUndel  int
	nSlash  int
	nPaid   int
}

func huntSetup(t *testing.T, takeRate math.LegacyDec) *huntEnv {
	app, ctx := createTestContext(t)
	startTime := time.Date(2024, 1, 1, 0, 0, 0, 0, time.UTC)
	ctx = ctx.WithBlockTime(startTime).WithBlockHeight(1)
	params := types.DefaultParams()
	params.TakeRateClaimInterval = time.Minute * 5
	params.LastTakeRateClaimTime = startTime
	app.AllianceKeeper.InitGenesis(ctx, &types.GenesisState{
		Params: params,
		Assets: []types.AllianceAsset{
			types.NewAllianceAsset(AllianceDenom, math.LegacyNewDec(2), math.LegacyZeroDec(), math.LegacyNewDec(20), math.LegacyZeroDec(), startTime),
			types.NewAllianceAsset(AllianceDenomTwo, math.LegacyNewDec(10), math.LegacyZeroDec(), math.LegacyNewDec(20), takeRate, startTime),
		},
	})
	addrs := test_helpers.AddTestAddrsIncremental(app, ctx, 7, sdk.NewCoins(
		sdk.NewCoin(AllianceDenom, math.NewInt(1_000_000_000)),
		sdk.NewCoin(AllianceDenomTwo, math.NewInt(1_000_000_000)),
	))
	pks := test_helpers.CreateTestPubKeys(3)
	env := &huntEnv{t: t, app: app, ms: keeper.NewMsgServerImpl(app.AllianceKeeper), denoms: []string{AllianceDenom, AllianceDenomTwo}}
	for i := 0; i < 3; i++ {
		valAddr := sdk.ValAddress(addrs[i])
		v := teststaking.NewValidator(t, valAddr, pks[i])
		v.Commission = stakingtypes.Commission{
			CommissionRates: stakingtypes.CommissionRates{Rate: math.LegacyNewDecWithPrec(1, 1), MaxRate: math.LegacyNewDec(1), MaxChangeRate: math.LegacyNewDec(0)},
			UpdateTime:      startTime,
		}
		test_helpers.RegisterNewValidator(t, app, ctx, v)
		env.vals = append(env.vals, valAddr)
	}
	env.dels = addrs[3:]
	env.ctx = ctx
	return env
}

// runs fn on a cached context, commits only if it neither fails nor panics
func (e *huntEnv) tx(fn func(ctx sdk.Context) error) (err error) {
	cctx, write := e.ctx.CacheContext()
	defer func() {
		if r := recover(); r != nil {
			err = fmt.Errorf("panic: %v", r)
		}
	}()
	err = fn(cctx)
	if err == nil {
		write()
	}
	return err
}

func (e *huntEnv) balances() map[string]math.Int {
	res := map[string]math.Int{}
	for _, d := range e.dels {
		for _, denom := range e.denoms {
			res[d.String()+"/"+denom] = e.app.BankKeeper.GetBalance(e.ctx, d, denom).Amount
		}
	}
	return res
}

func (e *huntEnv) undelegate(del sdk.AccAddress, val sdk.ValAddress, coin sdk.Coin) error {
	var completion time.Time
	err := e.tx(func(ctx sdk.Context) error {
		ut, err := e.app.StakingKeeper.UnbondingTime(ctx)
		if err != nil {
			return err
		}
		completion = ctx.BlockTime().Add(ut)
		_, err = e.ms.Undelegate(ctx, &types.MsgUndelegate{DelegatorAddress: del.String(), ValidatorAddress: val.String(), Amount: coin})
		return err
	})
	if err == nil {
		e.nUndel++
		e.pending = append(e.pending, &huntEntry{del: del.String(), val: val.String(), denom: coin.Denom, amount: coin.Amount, completion: completion})
	}
	return err
}

// slash through x/slashing -> x/staking -> the alliance hook, the model applies the effective fraction x/staking computes
func (e *huntEnv) slash(val sdk.ValAddress, factor math.LegacyDec) {
	sv, err := e.app.StakingKeeper.GetValidator(e.ctx, val)
	require.NoError(e.t, err)
	if sv.IsUnbonded() || !sv.Tokens.IsPositive() {
		return
	}
	power := sv.GetConsensusPower(e.app.StakingKeeper.PowerReduction(e.ctx))
	slashAmount := math.LegacyNewDecFromInt(e.app.StakingKeeper.TokensFromConsensusPower(e.ctx, power)).Mul(factor).TruncateInt()
	tokensToBurn := math.MinInt(slashAmount, sv.Tokens)
	if tokensToBurn.IsZero() {
		return
	}
	eff := math.LegacyNewDecFromInt(tokensToBurn).QuoRoundUp(math.LegacyNewDecFromInt(sv.Tokens))
	if eff.GT(math.LegacyOneDec()) {
		eff = math.LegacyOneDec()
	}
	cons, _ := sv.GetConsAddr()
	err = e.tx(func(ctx sdk.Context) error {
		return e.app.SlashingKeeper.Slash(ctx, cons, factor, power, ctx.BlockHeight())
	})
	if err != nil {
		e.t.Logf("slash skipped: %v", err)
		return
	}
	e.nSlash++
	for _, p := range e.pending {
		if p.val == val.String() && !p.completion.Before(e.ctx.BlockTime()) {
			p.amount = p.amount.Sub(eff.MulInt(p.amount).TruncateInt())
		}
	}
}

// end of block: the alliance end blocker must pay exactly the matured entries of the model
func (e *huntEnv) endBlock() {
	before := e.balances()
	expected := map[string]math.Int{}
	var left []*huntEntry
	for _, p := range e.pending {
		if p.completion.Before(e.ctx.BlockTime()) {
			k := p.del + "/" + p.denom
			if _, ok := expected[k]; !ok {
				expected[k] = math.ZeroInt()
			}
			expected[k] = expected[k].Add(p.amount)
			e.nPaid++
		} else {
			left = append(left, p)
		}
	}
	e.pending = left
	err := alliance.EndBlocker(e.ctx, e.app.AllianceKeeper)
	require.NoError(e.t, err)
	after := e.balances()
	for k, b := range before {
		exp, ok := expected[k]
		if !ok {
			exp = math.ZeroInt()
		}
		require.Equal(e.t, exp.String(), after[k].Sub(b).String(), "payout of %s at %s (height %d)", k, e.ctx.BlockTime(), e.ctx.BlockHeight())
	}
	e.checkStore()
}

// the queue and the per validator index hold exactly the pending entries of the model
func (e *huntEnv) checkStore() {
	var model []string
	idxModel := map[string]bool{}
	for _, p := range e.pending {
		model = append(model, fmt.Sprintf("%s|%s|%s|%s|%s", p.completion.UTC().Format(time.RFC3339Nano), p.del, p.val, p.denom, p.amount))
		idxModel[fmt.Sprintf("%s|%s|%s|%s", p.val, p.completion.UTC().Format(time.RFC3339Nano), p.denom, p.del)] = true
	}
	var store []string
	e.app.AllianceKeeper.IterateUndelegations(e.ctx, func(u types.QueuedUndelegation, completion time.Time) bool {
		for _, en := range u.Entries {
			store = append(store, fmt.Sprintf("%s|%s|%s|%s|%s", completion.UTC().Format(time.RFC3339Nano), en.DelegatorAddress, en.ValidatorAddress, en.Balance.Denom, en.Balance.Amount))
		}
		return false
	})
	sort.Strings(model)
	sort.Strings(store)
	require.Equal(e.t, model, store, "queue content at height %d", e.ctx.BlockHeight())

	idxStore := map[string]bool{}
	kv := runtime.KVStoreAdapter(runtime.NewKVStoreService(e.app.GetKey(types.StoreKey)).OpenKVStore(e.ctx))
	it := storetypes.KVStorePrefixIterator(kv, types.UndelegationByValidatorIndexKey)
	defer it.Close()
	for ; it.Valid(); it.Next() {
		v, denom := types.ParseUnbondingIndexKeyForValidatorAndDenom(it.Key())
		ct, err := types.GetTimeFromUndelegationKey(it.Key())
		require.NoError(e.t, err)
		k := it.Key()
		delLen := int(k[len(k)-1-20]) // test addresses are 20 bytes long
		require.Equal(e.t, 20, delLen)
		del := sdk.AccAddress(k[len(k)-20:])
		idxStore[fmt.Sprintf("%s|%s|%s|%s", v.String(), ct.UTC().Format(time.RFC3339Nano), denom, del.String())] = true
	}
	require.Equal(e.t, idxModel, idxStore, "index content at height %d", e.ctx.BlockHeight())
}

func (e *huntEnv) nextBlock(d time.Duration) {
	e.ctx = e.ctx.WithBlockTime(e.ctx.BlockTime().Add(d)).WithBlockHeight(e.ctx.BlockHeight() + 1)
}

func huntRun(t *testing.T, seed int64, blocks int, takeRate math.LegacyDec) *huntEnv {
	return huntRunOpt(t, seed, blocks, takeRate, true)
}

func huntRunOpt(t *testing.T, seed int64, blocks int, takeRate math.LegacyDec, drain bool) *huntEnv {
	r := rand.New(rand.NewSource(seed))
	e := huntSetup(t, takeRate)
	unbondingChoices := []time.Duration{time.Hour, 3 * time.Hour, 30 * time.Minute, 21 * 24 * time.Hour, time.Minute}
	for b := 0; b < blocks; b++ {
		// begin block: slashes
		if b > 2 && r.Intn(4) == 0 {
			f := math.LegacyNewDecWithPrec(int64(1+r.Intn(40)), 2)
			e.slash(e.vals[r.Intn(len(e.vals))], f)
		}
		// transactions
		nTx := r.Intn(5)
		for i := 0; i < nTx; i++ {
			del := e.dels[r.Intn(len(e.dels))]
			val := e.vals[r.Intn(len(e.vals))]
			denom := e.denoms[r.Intn(len(e.denoms))]
			switch r.Intn(7) {
			case 0, 1:
				amt := math.NewInt(int64(1 + r.Intn(5_000_000)))
				_ = e.tx(func(ctx sdk.Context) error {
					_, err := e.ms.Delegate(ctx, &types.MsgDelegate{DelegatorAddress: del.String(), ValidatorAddress: val.String(), Amount: sdk.NewCoin(denom, amt)})
					return err
				})
			case 2, 3, 4:
				d, found := e.app.AllianceKeeper.GetDelegation(e.ctx, del, val, denom)
				if !found {
					continue
				}
				av, err := e.app.AllianceKeeper.GetAllianceValidator(e.ctx, val)
				require.NoError(t, err)
				asset, _ := e.app.AllianceKeeper.GetAssetByDenom(e.ctx, denom)
				bal := types.GetDelegationTokens(d, av, asset).Amount
				if !bal.IsPositive() {
					continue
				}
				amt := bal
				if r.Intn(3) != 0 {
					amt = math.NewInt(1 + r.Int63n(bal.Int64()))
				}
				_ = e.undelegate(del, val, sdk.NewCoin(denom, amt))
				// sometimes a second one in the same block, same validator
				if r.Intn(4) == 0 {
					_ = e.undelegate(del, val, sdk.NewCoin(denom, math.NewInt(1+r.Int63n(1000))))
				}
			case 5:
				dst := e.vals[r.Intn(len(e.vals))]
				d, found := e.app.AllianceKeeper.GetDelegation(e.ctx, del, val, denom)
				if !found || dst.Equals(val) {
					continue
				}
				av, _ := e.app.AllianceKeeper.GetAllianceValidator(e.ctx, val)
				asset, _ := e.app.AllianceKeeper.GetAssetByDenom(e.ctx, denom)
				bal := types.GetDelegationTokens(d, av, asset).Amount
				if !bal.IsPositive() {
					continue
				}
				amt := math.NewInt(1 + r.Int63n(bal.Int64()))
				_ = e.tx(func(ctx sdk.Context) error {
					_, err := e.ms.Redelegate(ctx, &types.MsgRedelegate{DelegatorAddress: del.String(), ValidatorSrcAddress: val.String(), ValidatorDstAddress: dst.String(), Amount: sdk.NewCoin(denom, amt)})
					return err
				})
			case 6:
				if r.Intn(2) == 0 {
					// governance changes the staking unbonding time
					_ = e.tx(func(ctx sdk.Context) error {
						p, err := e.app.StakingKeeper.GetParams(ctx)
						if err != nil {
							return err
						}
						p.UnbondingTime = unbondingChoices[r.Intn(len(unbondingChoices))]
						return e.app.StakingKeeper.SetParams(ctx, p)
					})
				} else {
					// governance changes a reward weight
					_ = e.tx(func(ctx sdk.Context) error {
						asset, _ := e.app.AllianceKeeper.GetAssetByDenom(ctx, denom)
						_, err := e.ms.UpdateAlliance(ctx, &types.MsgUpdateAlliance{
							Authority: e.app.AllianceKeeper.GetAuthority(), Denom: denom,
							RewardWeight: math.LegacyNewDec(int64(1 + r.Intn(15))), TakeRate: asset.TakeRate,
							RewardChangeRate: math.LegacyOneDec(), RewardChangeInterval: 0, RewardWeightRange: asset.RewardWeightRange,
						})
						return err
					})
				}
			}
		}
		e.endBlock()
		// next block: sometimes land exactly on a completion time, sometimes one nanosecond after
		var d time.Duration
		switch r.Intn(4) {
		case 0:
			d = time.Duration(1+r.Intn(600)) * time.Second
		case 1:
			d = time.Duration(1+r.Intn(120)) * time.Minute
		default:
			if len(e.pending) > 0 {
				p := e.pending[r.Intn(len(e.pending))]
				d = p.completion.Sub(e.ctx.BlockTime())
				if r.Intn(2) == 0 {
					d += time.Nanosecond
				}
			}
			if d <= 0 {
				d = 5 * time.Second
			}
			if d > 48*time.Hour && r.Intn(3) != 0 {
				d = time.Duration(1+r.Intn(120)) * time.Minute
			}
		}
		e.nextBlock(d)
	}
	if !drain {
		return e
	}
	// drain
	e.nextBlock(30 * 24 * time.Hour)
	e.endBlock()
	require.Empty(t, e.pending)
	return e
}

func TestHuntModelNoTakeRate(t *testing.T) {
	for seed := int64(1); seed <= 6; seed++ {
		e := huntRun(t, seed, 150, math.LegacyZeroDec())
		t.Logf("seed %d: %d undelegations, %d slashes, %d payouts", seed, e.nUndel, e.nSlash, e.nPaid)
	}
}

func TestHuntModelTakeRate(t *testing.T) {
	for seed := int64(11); seed <= 14; seed++ {
		e := huntRun(t, seed, 150, math.LegacyNewDecWithPrec(1, 3))
		t.Logf("seed %d: %d undelegations, %d slashes, %d payouts", seed, e.nUndel, e.nSlash, e.nPaid)
	}
}

// state produced by the chain is exported and imported into a fresh chain, the pending entries must be paid there
// exactly like on the old chain (amounts, recipients, maturity, index removal, slashes after the import)
func TestHuntGenesisRoundTrip(t *testing.T) {
	for seed := int64(21); seed <= 24; seed++ {
		e := huntRunOpt(t, seed, 80, math.LegacyZeroDec(), false)
		// make sure that entries are pending: several delegators, validators and denoms, two blocks
		for round := 0; round < 2; round++ {
			for i, del := range e.dels {
				for j, val := range e.vals {
					for _, denom := range e.denoms {
						if _, found := e.app.AllianceKeeper.GetDelegation(e.ctx, del, val, denom); found {
							_ = e.undelegate(del, val, sdk.NewCoin(denom, math.NewInt(int64(1000+100*i+10*j+round))))
						}
					}
				}
			}
			e.endBlock()
			e.nextBlock(time.Minute)
		}
		require.NotEmpty(t, e.pending)
		genesis := e.app.AllianceKeeper.ExportGenesis(e.ctx)
		require.NoError(t, alliance.ValidateGenesis(genesis))
		moduleAddr := e.app.AccountKeeper.GetModuleAddress(types.ModuleName)
		moduleBalance := e.app.BankKeeper.GetAllBalances(e.ctx, moduleAddr)

		e2 := huntSetup(t, math.LegacyZeroDec())
		e2.ctx = e2.ctx.WithBlockTime(e.ctx.BlockTime()).WithBlockHeight(e.ctx.BlockHeight())
		e2.app.AllianceKeeper.InitGenesis(e2.ctx, genesis)
		var custody sdk.Coins
		for _, denom := range e.denoms {
			custody = custody.Add(sdk.NewCoin(denom, moduleBalance.AmountOf(denom)))
		}
		require.NoError(t, e2.app.BankKeeper.MintCoins(e2.ctx, minttypes.ModuleName, custody))
		require.NoError(t, e2.app.BankKeeper.SendCoinsFromModuleToModule(e2.ctx, minttypes.ModuleName, types.ModuleName, custody))
		e2.pending = e.pending
		e2.checkStore()
		// a delegation queues the rebalance so that the validators get voting power and can be slashed
		_, err := e2.ms.Delegate(e2.ctx, &types.MsgDelegate{DelegatorAddress: e2.dels[0].String(), ValidatorAddress: e2.vals[0].String(), Amount: sdk.NewCoin(AllianceDenom, math.NewInt(1000))})
		require.NoError(t, err)
		e2.endBlock()
		e2.nextBlock(time.Second)
		for _, v := range e2.vals {
			e2.slash(v, math.LegacyNewDecWithPrec(10, 2))
		}
		e2.endBlock()
		for len(e2.pending) > 0 {
			p := e2.pending[0]
			e2.nextBlock(p.completion.Sub(e2.ctx.BlockTime()))
			e2.endBlock() // block time == completion time: not yet
			e2.nextBlock(time.Nanosecond)
			e2.endBlock()
		}
		t.Logf("seed %d: %d slashes after import, %d payouts", seed, e2.nSlash, e2.nPaid)
	}
}

// the alliance is dissolved while an unbonding entry is pending; the validator is slashed afterwards; the entry is paid
func TestHuntDeletedAllianceStillPaid(t *testing.T) {
	e := huntSetup(t, math.LegacyZeroDec())
	del, other, val := e.dels[0], e.dels[1], e.vals[0]
	require.NoError(t, e.tx(func(ctx sdk.Context) error {
		_, err := e.ms.Delegate(ctx, &types.MsgDelegate{DelegatorAddress: del.String(), ValidatorAddress: val.String(), Amount: sdk.NewCoin(AllianceDenom, math.NewInt(1_000_003))})
		return err
	}))
	require.NoError(t, e.tx(func(ctx sdk.Context) error {
		_, err := e.ms.Delegate(ctx, &types.MsgDelegate{DelegatorAddress: other.String(), ValidatorAddress: val.String(), Amount: sdk.NewCoin(AllianceDenomTwo, math.NewInt(5_000_000))})
		return err
	}))
	e.endBlock()
	e.nextBlock(time.Minute)
	require.NoError(t, e.undelegate(del, val, sdk.NewCoin(AllianceDenom, math.NewInt(1_000_003))))
	require.NoError(t, e.tx(func(ctx sdk.Context) error {
		_, err := e.ms.DeleteAlliance(ctx, &types.MsgDeleteAlliance{Authority: e.app.AllianceKeeper.GetAuthority(), Denom: AllianceDenom})
		return err
	}))
	e.endBlock()
	e.nextBlock(time.Minute)
	e.slash(val, math.LegacyNewDecWithPrec(7, 2))
	require.Equal(t, 1, e.nSlash)
	require.True(t, e.pending[0].amount.LT(math.NewInt(1_000_003)))
	e.endBlock()
	// the alliance comes back under the same denom, new delegations, another slash
	e.nextBlock(time.Minute)
	require.NoError(t, e.tx(func(ctx sdk.Context) error {
		_, err := e.ms.CreateAlliance(ctx, &types.MsgCreateAlliance{Authority: e.app.AllianceKeeper.GetAuthority(), Denom: AllianceDenom,
			RewardWeight: math.LegacyNewDec(1), TakeRate: math.LegacyZeroDec(), RewardChangeRate: math.LegacyOneDec(),
			RewardWeightRange: types.RewardWeightRange{Min: math.LegacyZeroDec(), Max: math.LegacyNewDec(5)}})
		return err
	}))
	require.NoError(t, e.tx(func(ctx sdk.Context) error {
		_, err := e.ms.Delegate(ctx, &types.MsgDelegate{DelegatorAddress: del.String(), ValidatorAddress: val.String(), Amount: sdk.NewCoin(AllianceDenom, math.NewInt(77))})
		return err
	}))
	e.endBlock()
	e.nextBlock(time.Minute)
	e.slash(val, math.LegacyNewDecWithPrec(3, 2))
	require.Equal(t, 2, e.nSlash)
	e.endBlock()
	p := e.pending[0]
	e.nextBlock(p.completion.Sub(e.ctx.BlockTime()))
	e.endBlock()
	require.Len(t, e.pending, 1)
	e.nextBlock(time.Nanosecond)
	e.endBlock()
	require.Empty(t, e.pending)
}
